"""Extract a unit from /repo's working tree, run Verus on it, and parse what it proved.

Result dictionary:
  status: "ok" (verification ran) | "extract-error" | "compile-error" | "timeout"
  functions: {fn_id: {"success": bool, "time_us": int, "rlimit": int, "mode": str}}
  diags: [{"message", "line", "fn", "clause", "rendered"}]   (verification failures only)
  meta: extraction meta (items, rewrites)
  wall_s, smt_ms, cmd
"""
import json
import os
import subprocess
import sys
import time

HERE = os.path.dirname(os.path.abspath(__file__))
VERIF = os.path.dirname(HERE)
sys.path.insert(0, os.path.join(VERIF, "vx"))
import extract as X  # noqa
from rustlex import lex, find_blocks, ExtractError  # noqa


import threading
_EXTRACT_LOCK = threading.Lock()


def fn_ranges(path):
    """[(name, first_line, last_line)] of every fn in the generated file (any nesting depth)."""
    src = open(path, encoding="utf-8").read()
    toks = lex(src)
    out = []

    def walk(lo, hi, prefix):
        for kw, ob, cb in find_blocks(toks, lo, hi, "fn"):
            name = toks[kw + 1].text
            out.append((prefix + name, src.count("\n", 0, toks[kw].start) + 1, src.count("\n", 0, toks[cb].end) + 1))
        for kwd in ("impl", "mod"):
            for kw, ob, cb in find_blocks(toks, lo, hi, kwd):
                hdr = " ".join(t.text for t in toks[kw + 1:ob])
                # type name of an inherent impl; `Trait for Type` keeps the whole header
                walk(ob + 1, cb, (hdr.replace(" ", "") + "::") if kwd == "impl" else prefix)
        # descend into `verus! { ... }`
        for i in range(lo, hi - 2):
            if toks[i].kind == "ident" and toks[i].text == "verus" and toks[i + 1].text == "!" and toks[i + 2].text == "{":
                from rustlex import match_close
                c = match_close(toks, i + 2)
                walk(i + 3, c, prefix)
    walk(0, len(toks), "")
    return out


def scan_trusted(path):
    """Mechanical scan of the generated file for everything Verus takes on trust: external_body
    items, assume_specification, uninterpreted spec functions, and (never allowed) assume / admit."""
    import re
    src = open(path, encoding="utf-8").read()
    # drop comments
    src = re.sub(r"//[^\n]*", "", src)
    out = []
    for m in re.finditer(r"#\[verifier::external_body\]\s*(?:#\[[^\]]*\]\s*)*(?:pub\s+)?(?:broadcast\s+)?(?:proof\s+)?(fn|struct)\s+(\w+)", src):
        out.append(("external_body " + m.group(1), m.group(2)))
    for m in re.finditer(r"assume_specification\s*(?:<[^\[]*>)?\s*\[\s*([^\]]+?)\s*\]", src):
        out.append(("assume_specification", re.sub(r"\s+", " ", m.group(1))))
    for m in re.finditer(r"uninterp\s+spec\s+fn\s+(\w+)", src):
        out.append(("uninterp spec fn", m.group(1)))
    forbidden = []
    for m in re.finditer(r"\b(admit|assume)\s*\(", src):
        forbidden.append(m.group(1))
    return sorted(set(out)), forbidden


def run_unit(template, repo, workdir, name=None, canary=False, extra_args=(), timeout=600, seed=None):
    name = name or os.path.splitext(os.path.basename(template))[0]
    if canary:
        name += "_canary"
    out_rs = os.path.join(workdir, name + ".rs")
    out_meta = os.path.join(workdir, name + ".meta.json")
    t0 = time.time()
    res = {"unit": name, "template": os.path.relpath(template, VERIF), "status": "ok", "functions": {}, "diags": [],
           "meta": None, "wall_s": 0.0, "smt_ms": 0, "cmd": "", "canary": canary}
    try:
        # the extractor keeps per-run state in module globals (source cache, CANARY): runs of
        # different units / modes are started from a thread pool, so extraction is serialised
        with _EXTRACT_LOCK:
            X.Source.cache.clear()
            X.CANARY = canary
            metas = X.run(template, repo, out_rs, out_meta)
        res["meta"] = metas
    except ExtractError as e:
        res["status"] = "extract-error"
        res["error"] = str(e)
        res["wall_s"] = time.time() - t0
        return res
    try:
        res["trusted"], res["forbidden"] = scan_trusted(out_rs)
    except Exception:
        res["trusted"], res["forbidden"] = [], []
    if canary:
        # vacuity run: every `__canary` copy only has to FAIL to prove `false`; one error per function
        # and a small resource limit are enough (running out of resources is a failure to prove too)
        cmd = ["verus", out_rs, "--output-json", "--time-expanded", "--error-format=json", "--multiple-errors", "1", "--rlimit", "1"]
    else:
        cmd = ["verus", out_rs, "--output-json", "--time-expanded", "--error-format=json", "--multiple-errors", "50"]
    if seed is not None:
        cmd += ["--smt-option", f"smt.random_seed={int(seed) % 1000000}"]
    cmd += list(extra_args)
    res["cmd"] = " ".join(["verus", name + ".rs"] + cmd[2:])
    try:
        p = subprocess.run(cmd, cwd=workdir, capture_output=True, text=True, timeout=timeout)
    except subprocess.TimeoutExpired:
        res["status"] = "timeout"
        res["wall_s"] = time.time() - t0
        return res
    res["wall_s"] = time.time() - t0
    try:
        j = json.loads(p.stdout)
    except Exception:
        j = None
    diags = []
    for ln in p.stderr.splitlines():
        ln = ln.strip()
        if ln.startswith("{"):
            try:
                diags.append(json.loads(ln))
            except Exception:
                pass
    vr = (j or {}).get("verification-results") or {}
    if not j or "verified" not in vr or vr.get("encountered-vir-error"):
        res["status"] = "compile-error"
        res["error"] = "\n".join(d.get("rendered", "") for d in diags if d.get("level") == "error")[:6000] or p.stderr[-3000:]
        return res
    # compile errors (rustc) also show up as no function-breakdown at all
    crate = name
    fb = []
    try:
        for m in j["times-ms"]["smt"]["smt-run-module-times"]:
            fb += m.get("function-breakdown", [])
        res["smt_ms"] = j["times-ms"]["smt"]["total"]
    except Exception:
        pass
    for f in fb:
        fid = f["function"]
        if fid.startswith(crate + "::"):
            fid = fid[len(crate) + 2:]
        res["functions"][fid] = {"success": bool(f.get("success")), "time_us": f.get("time-micros", 0),
                                 "rlimit": f.get("rlimit", 0), "mode": f.get("mode:", "")}
    if not fb and any(d.get("level") == "error" and not str(d.get("message", "")).startswith("aborting") for d in diags):
        # rustc / VIR rejected the extracted text (e.g. the tree now uses an item the unit does not
        # know): nothing was verified - inconclusive, never a violation
        res["status"] = "compile-error"
        res["error"] = "\n".join(d.get("rendered", "") for d in diags if d.get("level") == "error")[:6000]
        return res
    res["verified"] = vr.get("verified")
    res["errors"] = vr.get("errors")
    ranges = fn_ranges(out_rs)
    lines = open(out_rs, encoding="utf-8").read().split("\n")
    for d in diags:
        if d.get("level") != "error" or not d.get("spans"):
            continue
        msg = d.get("message", "")
        if msg.startswith("aborting due to"):
            continue
        prim = [s for s in d["spans"] if s.get("is_primary")] or d["spans"]
        all_lines = [s["line_start"] for s in d["spans"]]
        fn = None
        # attribute to the innermost fn containing any span line (exit-point spans are inside)
        best = None
        for (nm, a, b) in ranges:
            if any(a <= L <= b for L in all_lines):
                if best is None or (b - a) < (best[2] - best[1]):
                    best = (nm, a, b)
        if best:
            fn = best[0]
        pl = prim[0]["line_start"]
        clause = lines[pl - 1].strip() if 0 < pl <= len(lines) else ""
        rlimit = "rlimit" in msg.lower() or "resource limit" in msg.lower()
        res["diags"].append({"message": msg, "line": pl, "fn": fn, "clause": clause[:300],
                             "rendered": d.get("rendered", "")[:4000], "rlimit": rlimit})
    return res
