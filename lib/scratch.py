"""Scratch copies of /repo's working tree for the native (bounded / replay) and Kani routes.

Nothing is cached in the scratch copy itself; cargo's target directory lives under
/verif/.cache (ignored by git, rebuilt by setup_cmd or on first use) so that dependency builds are
shared between checks.  The scratch copy and its files are removed by the caller.
"""
import os
import re
import shutil
import subprocess
import json
import time

HERE = os.path.dirname(os.path.abspath(__file__))
VERIF = os.path.dirname(HERE)
CACHE = os.path.join(VERIF, ".cache")

# file (relative to chitchat/src) -> native module injected as a child module (sees privates)
NATIVE_MODS = {
    "state.rs": "state_n.rs",
    "delta.rs": "delta_n.rs",
    "lib.rs": "lib_n.rs",
    "serialize.rs": "serialize_n.rs",
    "failure_detector.rs": "fd_n.rs",
    "listener.rs": "listener_n.rs",
    "server.rs": "server_n.rs",
    "message.rs": "message_n.rs",
}
KANI_MODS = {
    "state.rs": "state_k.rs",
    "serialize.rs": "serialize_k.rs",
    "listener.rs": "listener_k.rs",
    "types.rs": "types_k.rs",
    "message.rs": "message_k.rs",
    "digest.rs": "digest_k.rs",
    "delta.rs": "delta_k.rs",
    "failure_detector.rs": "fd_k.rs",
}


def copy_repo(repo, dst):
    if os.path.exists(dst):
        shutil.rmtree(dst)
    os.makedirs(dst)
    subprocess.run(["rsync", "-a", "--exclude", "target", "--exclude", ".git", repo.rstrip("/") + "/", dst + "/"], check=True)


def inject(dst, mods, subdir, cfg):
    injected = []
    for rel, mod in mods.items():
        modpath = os.path.join(VERIF, subdir, mod)
        src = os.path.join(dst, "chitchat", "src", rel)
        if not os.path.exists(modpath) or not os.path.exists(src):
            continue
        name = "verif_" + os.path.splitext(mod)[0]
        with open(src, "a", encoding="utf-8") as f:
            f.write(f"\n#[cfg({cfg})]\n#[path = \"{modpath}\"]\nmod {name};\n")
        injected.append(rel)
    return injected


def native_prepare(repo, dst):
    """scratch copy with the native driver modules appended (guard: cfg(all(test, chitchat_verif)))"""
    copy_repo(repo, dst)
    inj = inject(dst, NATIVE_MODS, "native", "all(test, chitchat_verif)")
    with open(os.path.join(dst, "Cargo.toml"), "w") as f:
        f.write('[workspace]\nresolver = "2"\nmembers = ["chitchat"]\n')
    return inj


def native_run(dst, test_filter, env_extra=None, timeout=3000, threads=None):
    """cargo test --lib <filter> in the scratch copy; returns (rc, stdout+stderr, results)
    results = list of JSON objects printed by the drivers on lines starting with VERIF-RESULT"""
    env = dict(os.environ)
    env["CARGO_NET_OFFLINE"] = "true"
    env["CARGO_TARGET_DIR"] = os.path.join(CACHE, "native-target")
    env["RUSTFLAGS"] = (env.get("RUSTFLAGS", "") + " --cfg chitchat_verif --check-cfg cfg(chitchat_verif) -Awarnings").strip()
    env["RUST_BACKTRACE"] = "0"
    env.update(env_extra or {})
    cmd = ["cargo", "test", "--offline", "-q", "-p", "chitchat", "--lib", "--", test_filter, "--nocapture"]
    if threads:
        cmd += ["--test-threads", str(threads)]
    t0 = time.time()
    try:
        p = subprocess.run(cmd, cwd=dst, env=env, capture_output=True, text=True, timeout=timeout)
        rc, out = p.returncode, p.stdout + "\n" + p.stderr
    except subprocess.TimeoutExpired as e:
        rc, out = 124, (e.stdout or "") + "\n" + (e.stderr or "") if isinstance(e.stdout, str) else "timeout"
    results = []
    for ln in out.splitlines():
        k = ln.find("VERIF-RESULT ")
        if k >= 0:
            try:
                results.append(json.loads(ln[k + 13:]))
            except Exception:
                pass
    return rc, out, results, time.time() - t0, " ".join(cmd)


def kani_prepare(repo, dst):
    copy_repo(repo, dst)
    inj = inject(dst, KANI_MODS, "kani", "kani")
    with open(os.path.join(dst, "Cargo.toml"), "w") as f:
        f.write('[workspace]\nresolver = "2"\nmembers = ["chitchat"]\n\n[patch.crates-io]\n'
                f'tracing = {{ path = "{os.path.join(VERIF, "kani", "tracing_stub")}" }}\n')
    os.makedirs(os.path.join(dst, ".cargo"), exist_ok=True)
    with open(os.path.join(dst, ".cargo", "config.toml"), "w") as f:
        f.write("[net]\noffline = true\n")
    return inj


def kani_run(dst, harness, extra=(), timeout=1800):
    res = kani_run_many(dst, [harness], extra=extra, timeout=timeout)
    r = res["harnesses"].get(harness, {})
    return res["rc"], r.get("output", res["tail"]), res["wall"], res["cmd"]


def kani_run_many(dst, harnesses, extra=(), timeout=2400, jobs=8):
    """one `cargo kani` invocation for several harnesses; returns per-harness verdicts.
    The whole process group is killed on timeout so that no cbmc is left behind."""
    import signal
    env = dict(os.environ)
    env["CARGO_NET_OFFLINE"] = "true"
    cmd = ["cargo", "kani", "--target-dir", os.path.join(CACHE, "kani-target"), "-Z", "stubbing", "-Z", "function-contracts",
           "-j", str(jobs), "--output-format", "terse"]
    for h in harnesses:
        cmd += ["--harness", h]
    cmd += list(extra)
    t0 = time.time()
    p = subprocess.Popen(cmd, cwd=os.path.join(dst, "chitchat"), env=env, stdout=subprocess.PIPE, stderr=subprocess.STDOUT,
                         text=True, start_new_session=True)
    try:
        out, _ = p.communicate(timeout=timeout)
        rc = p.returncode
    except subprocess.TimeoutExpired:
        try:
            os.killpg(p.pid, signal.SIGKILL)
        except Exception:
            pass
        out, _ = p.communicate()
        rc = 124
    wall = time.time() - t0
    res = {}
    cur = {}     # thread -> harness name
    # single-threaded format has no "Thread N:" prefix: normalise it
    norm = out
    if "Thread " not in out:
        norm = re.sub(r"(?m)^Checking harness ", "Thread 0: Checking harness ", out)
        norm = re.sub(r"(?m)^VERIFICATION RESULT:", "Thread 0: \nVERIFICATION RESULT:", norm)
    pos = 0
    pat = re.compile(r"Thread (\d+): Checking harness (\S+?)\.\.\.|Thread (\d+): ?\n(?:SUMMARY:|RESULTS:|VERIFICATION RESULT:)(.*?)Verification Time: ([\d.]+)s", re.S)
    for m in pat.finditer(norm):
        if m.group(2):
            cur[m.group(1)] = m.group(2).split("::")[-1]
            res[cur[m.group(1)]] = {"ok": False, "failed": False, "checks": 0, "time_s": None, "cover_unsat": False,
                                    "failed_checks": [], "output": ""}
        else:
            name = cur.get(m.group(3))
            if not name:
                continue
            part = m.group(4)
            mm = re.search(r"\*\* (\d+) of (\d+) failed", part)
            cov = re.search(r"\*\* (\d+) of (\d+) cover properties satisfied", part)
            res[name].update({"ok": "VERIFICATION:- SUCCESSFUL" in part, "failed": "VERIFICATION:- FAILED" in part,
                              "checks": int(mm.group(2)) if mm else 0, "time_s": float(m.group(5)),
                              "cover_unsat": bool(cov and int(cov.group(1)) < int(cov.group(2))),
                              "failed_checks": re.findall(r"Failed Checks: (.*)", part)[:10], "output": part[-5000:]})
    return {"rc": rc, "wall": wall, "cmd": " ".join(cmd), "harnesses": res, "tail": out[-3000:],
            "compile_error": ("error: could not compile" in out or "Failed to execute cargo" in out)}


def kani_file_run(rs_path, harness, args=(), timeout=1500):
    """single-file `kani f.rs --harness h` on mechanically extracted text (C17)"""
    import signal
    cmd = ["kani", os.path.basename(rs_path), "--harness", harness] + list(args)
    t0 = time.time()
    p = subprocess.Popen(cmd, cwd=os.path.dirname(rs_path), stdout=subprocess.PIPE, stderr=subprocess.STDOUT, text=True, start_new_session=True)
    try:
        out, _ = p.communicate(timeout=timeout)
        rc = p.returncode
    except subprocess.TimeoutExpired:
        try:
            os.killpg(p.pid, signal.SIGKILL)
        except Exception:
            pass
        out, _ = p.communicate()
        rc = 124
    mm = re.search(r"\*\* (\d+) of (\d+) failed", out)
    cov = re.search(r"\*\* (\d+) of (\d+) cover properties satisfied", out)
    mt = re.search(r"Verification Time: ([\d.]+)s", out)
    return {"rc": rc, "wall": time.time() - t0, "cmd": " ".join(cmd), "ok": "VERIFICATION:- SUCCESSFUL" in out,
            "failed": "VERIFICATION:- FAILED" in out, "checks": int(mm.group(2)) if mm else 0,
            "time_s": float(mt.group(1)) if mt else None,
            "cover_unsat": bool(cov and int(cov.group(1)) < int(cov.group(2))),
            "failed_checks": re.findall(r"Failed Checks: (.*(?:\n File: .*)?)", out)[:10],
            "compile_error": ("error: aborting" in out or "error[E" in out) and "VERIFICATION" not in out,
            "output": out[-6000:]}
