"""Scratch copies of /repo's working tree for the native (bounded / replay) and Kani routes.

Nothing is cached in the scratch copy itself; cargo's target directory lives under
/verif/.cache (ignored by git, rebuilt by setup_cmd or on first use) so that dependency builds are
shared between checks.  The scratch copy and its files are removed by the caller.
"""
import os
import re
import shutil
import subprocess
import json
import time

HERE = os.path.dirname(os.path.abspath(__file__))
VERIF = os.path.dirname(HERE)
CACHE = os.path.join(VERIF, ".cache")

# file (relative to chitchat/src) -> native module injected as a child module (sees privates)
NATIVE_MODS = {
    "state.rs": "state_n.rs",
    "delta.rs": "delta_n.rs",
    "lib.rs": "lib_n.rs",
    "serialize.rs": "serialize_n.rs",
    "failure_detector.rs": "fd_n.rs",
    "listener.rs": "listener_n.rs",
    "server.rs": "server_n.rs",
    "message.rs": "message_n.rs",
}
KANI_MODS = {
    "state.rs": "state_k.rs",
    "serialize.rs": "serialize_k.rs",
    "listener.rs": "listener_k.rs",
    "types.rs": "types_k.rs",
    "message.rs": "message_k.rs",
    "digest.rs": "digest_k.rs",
    "delta.rs": "delta_k.rs",
    "failure_detector.rs": "fd_k.rs",
}


class target_lock:
    """Exclusive lock on a shared cargo target directory for one build-and-run. Cargo names the
    artifacts of a workspace member independently of the absolute path of the workspace, so two
    scratch copies of /repo built into the same target directory at the same time overwrite each
    other's test binary; concurrent checks (seeded self-test, a developer running two properties at
    once) therefore take turns here."""

    def __init__(self, name):
        os.makedirs(CACHE, exist_ok=True)
        self.path = os.path.join(CACHE, name + ".lock")

    def __enter__(self):
        import fcntl
        self.f = open(self.path, "w")
        fcntl.flock(self.f, fcntl.LOCK_EX)
        return self

    def __exit__(self, *a):
        import fcntl
        fcntl.flock(self.f, fcntl.LOCK_UN)
        self.f.close()


def copy_repo(repo, dst):
    if os.path.exists(dst):
        shutil.rmtree(dst)
    os.makedirs(dst)
    subprocess.run(["rsync", "-a", "--exclude", "target", "--exclude", ".git", repo.rstrip("/") + "/", dst + "/"], check=True)


def inject(dst, mods, subdir, cfg):
    injected = []
    for rel, mod in mods.items():
        modpath = os.path.join(VERIF, subdir, mod)
        src = os.path.join(dst, "chitchat", "src", rel)
        if not os.path.exists(modpath) or not os.path.exists(src):
            continue
        name = "verif_" + os.path.splitext(mod)[0]
        with open(src, "a", encoding="utf-8") as f:
            f.write(f"\n#[cfg({cfg})]\n#[path = \"{modpath}\"]\nmod {name};\n")
        injected.append(rel)
    return injected


def stamp_identity(dst, subdir, mods):
    """Give the scratch copy's `chitchat` package an identity derived from its content: the version
    gets the build-metadata suffix `+v<sha1 of the sources and of the injected driver / harness
    files>`. Cargo identifies a workspace member independently of the workspace's absolute path and
    keeps absolute source paths in its dep-info, so without this two scratch copies with DIFFERENT
    sources sharing one target directory can be served each other's build (seen with concurrent
    seeded self-tests). Equal content -> equal identity -> the cached build is reused, which is
    correct. Artifacts of other identities older than 6 hours are pruned."""
    import glob
    import hashlib
    h = hashlib.sha1()
    files = sorted(glob.glob(os.path.join(dst, "chitchat", "src", "**", "*.rs"), recursive=True))
    files += [os.path.join(dst, "chitchat", "Cargo.toml")]
    files += sorted(glob.glob(os.path.join(VERIF, subdir, "**", "*.rs"), recursive=True))
    for fpath in files:
        try:
            with open(fpath, "rb") as f:
                h.update(fpath.replace(dst, "").encode() + b"\0" + f.read() + b"\0")
        except OSError:
            pass
    ident = h.hexdigest()[:12]
    ct = os.path.join(dst, "chitchat", "Cargo.toml")
    txt = open(ct, encoding="utf-8").read()
    txt2, n = re.subn(r'(?m)^version\s*=\s*"([^"+]+)(\+[^"]*)?"', lambda m: f'version = "{m.group(1)}+v{ident}"', txt, count=1)
    if n == 1:
        with open(ct, "w", encoding="utf-8") as f:
            f.write(txt2)
    # prune artifacts of other identities that have not been touched for 6 hours
    now = time.time()
    pats = [os.path.join(CACHE, "native-target", "debug", d, "chitchat-*") for d in ("deps", "incremental", ".fingerprint")]
    pats += [os.path.join(CACHE, "kani-target", "kani", "*", "debug", "build", "chitchat", "*"),
             os.path.join(CACHE, "kani-target", "kani", "*", "debug", "incremental", "chitchat-*")]
    for pat in pats:
        for path in glob.glob(pat):
            try:
                if now - os.path.getmtime(path) > 6 * 3600:
                    if os.path.isdir(path):
                        shutil.rmtree(path, ignore_errors=True)
                    else:
                        os.remove(path)
            except OSError:
                pass
    return ident


def native_prepare(repo, dst):
    """scratch copy with the native driver modules appended (guard: cfg(all(test, chitchat_verif)))"""
    copy_repo(repo, dst)
    inj = inject(dst, NATIVE_MODS, "native", "all(test, chitchat_verif)")
    with open(os.path.join(dst, "Cargo.toml"), "w") as f:
        f.write('[workspace]\nresolver = "2"\nmembers = ["chitchat"]\n')
    stamp_identity(dst, "native", NATIVE_MODS)
    return inj


def native_run(dst, test_filter, env_extra=None, timeout=3000, threads=None):
    """cargo test --lib <filter> in the scratch copy; returns (rc, stdout+stderr, results)
    results = list of JSON objects printed by the drivers on lines starting with VERIF-RESULT"""
    env = dict(os.environ)
    env["CARGO_NET_OFFLINE"] = "true"
    env["CARGO_TARGET_DIR"] = os.path.join(CACHE, "native-target")
    env["RUSTFLAGS"] = (env.get("RUSTFLAGS", "") + " --cfg chitchat_verif --check-cfg cfg(chitchat_verif) -Awarnings").strip()
    env["RUST_BACKTRACE"] = "0"
    env.update(env_extra or {})
    cmd = ["cargo", "test", "--offline", "-q", "-p", "chitchat", "--lib", "--", test_filter, "--nocapture"]
    if threads:
        cmd += ["--test-threads", str(threads)]
    with target_lock("native-target"):
        t0 = time.time()
        try:
            p = subprocess.run(cmd, cwd=dst, env=env, capture_output=True, text=True, timeout=timeout)
            rc, out = p.returncode, p.stdout + "\n" + p.stderr
        except subprocess.TimeoutExpired as e:
            rc, out = 124, (e.stdout or "") + "\n" + (e.stderr or "") if isinstance(e.stdout, str) else "timeout"
    results = []
    for ln in out.splitlines():
        k = ln.find("VERIF-RESULT ")
        if k >= 0:
            try:
                results.append(json.loads(ln[k + 13:]))
            except Exception:
                pass
    return rc, out, results, time.time() - t0, " ".join(cmd)


def kani_prepare(repo, dst):
    copy_repo(repo, dst)
    inj = inject(dst, KANI_MODS, "kani", "kani")
    with open(os.path.join(dst, "Cargo.toml"), "w") as f:
        f.write('[workspace]\nresolver = "2"\nmembers = ["chitchat"]\n\n[patch.crates-io]\n'
                f'tracing = {{ path = "{os.path.join(VERIF, "kani", "tracing_stub")}" }}\n')
    os.makedirs(os.path.join(dst, ".cargo"), exist_ok=True)
    with open(os.path.join(dst, ".cargo", "config.toml"), "w") as f:
        f.write("[net]\noffline = true\n")
    stamp_identity(dst, "kani", KANI_MODS)
    return inj


def kani_run(dst, harness, extra=(), timeout=1800):
    res = kani_run_many(dst, [harness], extra=extra, timeout=timeout)
    r = res["harnesses"].get(harness, {})
    return res["rc"], r.get("output", res["tail"]), res["wall"], res["cmd"]


def kani_run_many(dst, harnesses, extra=(), timeout=2400, jobs=8):
    """one `cargo kani` invocation for several harnesses; returns per-harness verdicts.
    The whole process group is killed on timeout so that no cbmc is left behind."""
    import signal
    env = dict(os.environ)
    env["CARGO_NET_OFFLINE"] = "true"
    cmd = ["cargo", "kani", "--target-dir", os.path.join(CACHE, "kani-target"), "-Z", "stubbing", "-Z", "function-contracts",
           "-j", str(jobs), "--output-format", "terse"]
    for h in harnesses:
        cmd += ["--harness", h]
    cmd += list(extra)
    with target_lock("kani-target"):
        t0 = time.time()
        p = subprocess.Popen(cmd, cwd=os.path.join(dst, "chitchat"), env=env, stdout=subprocess.PIPE, stderr=subprocess.STDOUT,
                             text=True, start_new_session=True)
        try:
            out, _ = p.communicate(timeout=timeout)
            rc = p.returncode
        except subprocess.TimeoutExpired:
            try:
                os.killpg(p.pid, signal.SIGKILL)
            except Exception:
                pass
            out, _ = p.communicate()
            rc = 124
        wall = time.time() - t0
    res = {}
    cur = {}     # thread -> harness name
    # single-threaded format has no "Thread N:" prefix: normalise it
    norm = out
    if "Thread " not in out:
        norm = re.sub(r"(?m)^Checking harness ", "Thread 0: Checking harness ", out)
        norm = re.sub(r"(?m)^VERIFICATION RESULT:", "Thread 0: \nVERIFICATION RESULT:", norm)
    pos = 0
    pat = re.compile(r"Thread (\d+): Checking harness (\S+?)\.\.\.|Thread (\d+): ?\n(?:SUMMARY:|RESULTS:|VERIFICATION RESULT:)(.*?)Verification Time: ([\d.]+)s", re.S)
    for m in pat.finditer(norm):
        if m.group(2):
            cur[m.group(1)] = m.group(2).split("::")[-1]
            res[cur[m.group(1)]] = {"ok": False, "failed": False, "checks": 0, "time_s": None, "cover_unsat": False,
                                    "failed_checks": [], "output": ""}
        else:
            name = cur.get(m.group(3))
            if not name:
                continue
            part = m.group(4)
            mm = re.search(r"\*\* (\d+) of (\d+) failed", part)
            cov = re.search(r"\*\* (\d+) of (\d+) cover properties satisfied", part)
            res[name].update({"ok": "VERIFICATION:- SUCCESSFUL" in part, "failed": "VERIFICATION:- FAILED" in part,
                              "checks": int(mm.group(2)) if mm else 0, "time_s": float(m.group(5)),
                              "cover_unsat": bool(cov and int(cov.group(1)) < int(cov.group(2))),
                              "failed_checks": re.findall(r"Failed Checks: (.*)", part)[:10], "output": part[-5000:]})
    return {"rc": rc, "wall": wall, "cmd": " ".join(cmd), "harnesses": res, "tail": out[-3000:],
            "compile_error": ("error: could not compile" in out or "Failed to execute cargo" in out)}


def kani_file_run(rs_path, harness, args=(), timeout=1500):
    """single-file `kani f.rs --harness h` on mechanically extracted text (C17)"""
    import signal
    cmd = ["kani", os.path.basename(rs_path), "--harness", harness] + list(args)
    t0 = time.time()
    p = subprocess.Popen(cmd, cwd=os.path.dirname(rs_path), stdout=subprocess.PIPE, stderr=subprocess.STDOUT, text=True, start_new_session=True)
    try:
        out, _ = p.communicate(timeout=timeout)
        rc = p.returncode
    except subprocess.TimeoutExpired:
        try:
            os.killpg(p.pid, signal.SIGKILL)
        except Exception:
            pass
        out, _ = p.communicate()
        rc = 124
    mm = re.search(r"\*\* (\d+) of (\d+) failed", out)
    cov = re.search(r"\*\* (\d+) of (\d+) cover properties satisfied", out)
    mt = re.search(r"Verification Time: ([\d.]+)s", out)
    return {"rc": rc, "wall": time.time() - t0, "cmd": " ".join(cmd), "ok": "VERIFICATION:- SUCCESSFUL" in out,
            "failed": "VERIFICATION:- FAILED" in out, "checks": int(mm.group(2)) if mm else 0,
            "time_s": float(mt.group(1)) if mt else None,
            "cover_unsat": bool(cov and int(cov.group(1)) < int(cov.group(2))),
            "failed_checks": re.findall(r"Failed Checks: (.*(?:\n File: .*)?)", out)[:10],
            "compile_error": ("error: aborting" in out or "error[E" in out) and "VERIFICATION" not in out,
            "output": out[-6000:]}
