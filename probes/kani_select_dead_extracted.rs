// prelude: contract stubs for externals
use std::marker::PhantomData;
#[derive(Clone, Copy, PartialEq, Eq, Debug)]
pub struct SocketAddr(pub u32);
pub struct HashSet<T> { n: usize, _p: PhantomData<T> }
pub struct Iter<'a, T> { s: &'a HashSet<T> }
impl HashSet<SocketAddr> {
    pub fn len(&self) -> usize { self.n }
    pub fn iter(&self) -> Iter<'_, SocketAddr> { Iter { s: self } }
}
impl<'a> Iter<'a, SocketAddr> {
    // A-rand: choose returns Some(member) iff non-empty
    pub fn choose<R: Rng + ?Sized>(self, _rng: &mut R) -> Option<&'a SocketAddr> {
        if self.s.n == 0 { None } else { let idx: u32 = kani::any(); kani::assume((idx as usize) < self.s.n); Some(Box::leak(Box::new(SocketAddr(idx)))) }
    }
}
pub trait Rng { fn random<T: FromRng>(&mut self) -> T; }
pub trait FromRng { fn from_bits(x: u64) -> Self; }
impl FromRng for f64 { fn from_bits(x: u64) -> f64 { (x >> 11) as f64 * (1.0 / ((1u64 << 53) as f64)) } }
pub struct AnyRng;
impl Rng for AnyRng { fn random<T: FromRng>(&mut self) -> T { T::from_bits(kani::any()) } }

// ---- extracted verbatim from server.rs:399-414 ----
/// Selects a dead node to gossip with, with some probability.
fn select_dead_node_to_gossip_with<R>(
    rng: &mut R,
    dead_nodes: &HashSet<SocketAddr>,
    live_nodes_count: usize,
    dead_nodes_count: usize,
) -> Option<SocketAddr>
where
    R: Rng + ?Sized,
{
    let selection_probability = dead_nodes_count as f64 / (live_nodes_count + 1) as f64;
    if selection_probability > rng.random::<f64>() {
        return dead_nodes.iter().choose(rng).cloned();
    }
    None
}

#[kani::proof]
fn k_dead_forced() {
    let n: usize = kani::any();
    kani::assume(n < (1usize << 20));
    let dead = HashSet::<SocketAddr> { n, _p: PhantomData };
    let live: usize = kani::any();
    kani::assume(live < (1usize << 20));
    let r = select_dead_node_to_gossip_with(&mut AnyRng, &dead, live, dead.len());
    if n > live { assert!(r.is_some()); }
    if let Some(a) = r { assert!((a.0 as usize) < n); }
    kani::cover!(r.is_none() && n > 0);
}
