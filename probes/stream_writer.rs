#![feature(allocator_api)]
use vstd::prelude::*;
verus! {

#[verifier::external_body]
pub struct IoError { x: u64 }

#[verifier::external_body]
pub fn zstd_compress_to_buffer(src: &[u8], dst: &mut [u8], level: i32) -> (r: Result<usize, IoError>)
    ensures final(dst)@.len() == old(dst)@.len(),
            r is Ok ==> r->Ok_0 <= old(dst)@.len(),
{ unimplemented!() }

#[verifier::external_body]
fn vpanic() requires false { panic!() }

// assumed std specs
#[verifier::external_body]
pub fn vec_extend_slice(v: &mut Vec<u8>, s: &[u8])
    ensures final(v)@ == old(v)@ + s@
{ v.extend(s); }

#[verifier::external_body]
pub fn vec_drain_prefix(v: &mut Vec<u8>, n: usize)
    requires n <= old(v)@.len()
    ensures final(v)@ == old(v)@.subrange(n as int, old(v)@.len() as int)
{ v.drain(..n); }

pub trait Serializable {
    spec fn enc(&self) -> Seq<u8>;
    fn serialize(&self, buf: &mut Vec<u8>)
        ensures final(buf)@ == old(buf)@ + self.enc();
    fn serialized_len(&self) -> (r: usize)
        ensures r == self.enc().len();
}

pub struct CompressedStreamWriter {
    pub output: Vec<u8>,
    pub uncompressed_block: Vec<u8>,
    pub compressed_block: Vec<u8>,
    pub block_threshold: usize,
}

pub open spec fn min_nat(a: nat, b: nat) -> nat { if a <= b { a } else { b } }

pub open spec fn w_measure(w: CompressedStreamWriter) -> nat {
    w.output@.len() + (if w.uncompressed_block@.len() > 0 { 3 + w.uncompressed_block@.len() } else { 0 }) + 1
}

impl CompressedStreamWriter {
    pub fn serialized_len_upperbound_after<S: Serializable + ?Sized>(&self, item: &S) -> (r: usize)
        requires item.enc().len() > 0, self.output@.len() + self.uncompressed_block@.len() + item.enc().len() + 7 <= usize::MAX,
        ensures r == (if self.uncompressed_block@.len() + item.enc().len() > self.block_threshold
              { 3 + self.output@.len() + self.uncompressed_block@.len() + 3 + item.enc().len() + 1 }
              else { 3 + self.output@.len() + self.uncompressed_block@.len() + item.enc().len() + 1 }),
    {
        let new_item_serialized_len = item.serialized_len();
        if !(new_item_serialized_len > 0) { vpanic(); }
        const BLOCK_META_LEN: usize = 3;
        let new_block_needed =
            self.uncompressed_block.len() + new_item_serialized_len > self.block_threshold;
        if new_block_needed {
            BLOCK_META_LEN + self.output.len() + self.uncompressed_block.len() + // current block
                BLOCK_META_LEN + new_item_serialized_len // new block
                + 1 // No more blocks tag.
        } else {
            BLOCK_META_LEN + self.output.len() + self.uncompressed_block.len() + new_item_serialized_len // current block
                + 1 // No more blocks tag.
        }
    }

    pub fn append<S: Serializable + ?Sized>(&mut self, item: &S)
        requires item.enc().len() <= 65535, 0 < old(self).block_threshold <= 65535,
            old(self).uncompressed_block@.len() <= old(self).block_threshold,
            item.enc().len() <= old(self).block_threshold,
            item.enc().len() > 0,
        ensures final(self).block_threshold == old(self).block_threshold,
            final(self).uncompressed_block@.len() <= final(self).block_threshold,
            w_measure(*final(self)) <= (if old(self).uncompressed_block@.len() + item.enc().len() > old(self).block_threshold
              { 3 + old(self).output@.len() + old(self).uncompressed_block@.len() + 3 + item.enc().len() + 1 }
              else { 3 + old(self).output@.len() + old(self).uncompressed_block@.len() + item.enc().len() + 1 }),
    {
        let item_len = item.serialized_len();
        if !(item_len <= u16::MAX as usize) { vpanic(); }
        item.serialize(&mut self.uncompressed_block);
        while self.uncompressed_block.len() > self.block_threshold
            invariant
                self.block_threshold == old(self).block_threshold, 0 < self.block_threshold <= 65535,
                old(self).uncompressed_block@.len() <= old(self).block_threshold,
                item.enc().len() <= old(self).block_threshold,
                (self.uncompressed_block@.len() == old(self).uncompressed_block@.len() + item.enc().len() && self.output@.len() == old(self).output@.len())
                || (self.uncompressed_block@.len() == old(self).uncompressed_block@.len() + item.enc().len() - self.block_threshold
                    && self.output@.len() <= old(self).output@.len() + 3 + self.block_threshold
                    && self.uncompressed_block@.len() <= self.block_threshold),
            decreases self.uncompressed_block@.len(),
        {
            // time to flush our current block.
            self.flush_block();
        }
    }

    pub fn finish(self) -> (r: Vec<u8>)
        requires self.block_threshold <= 65535, self.uncompressed_block@.len() <= self.block_threshold,
        ensures r@.len() <= w_measure(self)
    {
        let mut this = self;
        this.flush_block();
        this.output.push(0u8);
        this.output
    }

    fn flush_block(&mut self)
        requires old(self).block_threshold <= 65535,
        ensures
            final(self).block_threshold == old(self).block_threshold,
            old(self).uncompressed_block@.len() == 0 ==> final(self).output@.len() == old(self).output@.len() && final(self).uncompressed_block@.len() == 0,
            old(self).uncompressed_block@.len() > 0 ==> ({
                let n = min_nat(old(self).uncompressed_block@.len(), old(self).block_threshold as nat);
                final(self).uncompressed_block@.len() == old(self).uncompressed_block@.len() - n
                && final(self).output@.len() <= old(self).output@.len() + 3 + n
            }),
    {
        if self.uncompressed_block.is_empty() {
            return;
        }
        let num_bytes_to_compress = self.uncompressed_block.len().min(self.block_threshold);

        self.compressed_block.resize(num_bytes_to_compress, 0u8);
        match zstd_compress_to_buffer(
            &self.uncompressed_block[..num_bytes_to_compress],
            self.compressed_block.as_mut_slice(),
            0, // default compression level
        ) {
            Ok(compressed_len) => {
                self.output.push(1u8);
                let compressed_len_u16 = u16::try_from(compressed_len).unwrap();
                self.output.push(0u8); self.output.push(0u8);
                vec_extend_slice(&mut self.output, &self.compressed_block[..compressed_len]);
            }
            Err(_) => {
                self.output.push(2u8);
                self.output.push(0u8); self.output.push(0u8);
                vec_extend_slice(&mut self.output, &self.uncompressed_block[..num_bytes_to_compress]);
            }
        }
        vec_drain_prefix(&mut self.uncompressed_block, num_bytes_to_compress);
    }
}
}
fn main() {}
