// Probe for C14/C05: sender-side decision (slice of state.rs:651-672, rule R10) and the
// receiver's check_delta_status, related by lemmas over their contracts, for all u64.
// `verus agree_lemma.rs` -> expected: all verified
use vstd::prelude::*;
verus! {
pub type Version = u64;
pub struct NodeState { pub max_version: Version, pub last_gc_version: Version }
pub struct NodeDeltaHdr { pub from_version_excluded: Version, pub last_gc_version: Version, pub max_version: Version }
#[derive(Copy, Clone, Debug, PartialEq, Eq)]
pub enum DeltaStatus { Reject, Apply, ApplyAfterReset }

pub open spec fn status_spec(m: u64, g: u64, from: u64, dgc: u64, dmax: u64) -> DeltaStatus {
    if from > m { DeltaStatus::Reject }
    else if !(dgc <= g || dgc <= m) { if from != 0 { DeltaStatus::Reject } else { DeltaStatus::ApplyAfterReset } }
    else if m < dmax { DeltaStatus::Apply } else { DeltaStatus::Reject }
}
pub open spec fn decision_spec(sg: u64, sm: u64, dg: u64, dm: u64) -> Option<u64> {
    if sm <= dm { None } else if dg < sg && dm < sg { Some(0u64) } else { Some(dm) }
}

impl NodeState {
    pub fn max_version(&self) -> (r: Version) ensures r == self.max_version { self.max_version }

    // verbatim body (tracing dropped)
    fn check_delta_status(&self, node_delta: &NodeDeltaHdr) -> (r: DeltaStatus)
        ensures r == status_spec(self.max_version, self.last_gc_version, node_delta.from_version_excluded, node_delta.last_gc_version, node_delta.max_version)
    {
        if node_delta.from_version_excluded > self.max_version {
            return DeltaStatus::Reject;
        }
        let compatible_without_reset =
            node_delta.last_gc_version <= self.last_gc_version ||
            node_delta.last_gc_version <= self.max_version();
        if !compatible_without_reset {
            if node_delta.from_version_excluded != 0 {
                return DeltaStatus::Reject;
            } else {
                return DeltaStatus::ApplyAfterReset;
            }
        }
        if self.max_version() < node_delta.max_version {
            DeltaStatus::Apply
        } else {
            DeltaStatus::Reject
        }
    }
}

// R10 slice of compute_partial_delta_respecting_mtu: `continue` -> return None, `offer(.., x)` -> return Some(x)
fn sender_decision(node_state: &NodeState, digest_last_gc_version: u64, digest_max_version: u64) -> (r: Option<u64>)
    ensures r == decision_spec(node_state.last_gc_version, node_state.max_version, digest_last_gc_version, digest_max_version)
{
    if node_state.max_version <= digest_max_version {
        return None;
    }
    let should_reset = digest_last_gc_version < node_state.last_gc_version
        && digest_max_version < node_state.last_gc_version;
    let from_version_excluded = if should_reset {
        0u64
    } else {
        digest_max_version
    };
    return Some(from_version_excluded);
}

// L.agree
proof fn lemma_agree(sg: u64, sm: u64, rg: u64, rm: u64, dmax: u64)
    requires sm > rm,
        decision_spec(sg, sm, rg, rm) is Some,
        ({ let from = decision_spec(sg, sm, rg, rm)->0; from < dmax <= sm || (from == 0 && rg < sg && rm < sg) }),
    ensures ({
        let from = decision_spec(sg, sm, rg, rm)->0;
        let st = status_spec(rm, rg, from, sg, dmax);
        &&& st != DeltaStatus::Reject
        &&& (st == DeltaStatus::ApplyAfterReset <==> (rm < sg && rg < sg))
        &&& (st == DeltaStatus::ApplyAfterReset ==> from == 0 && sg > rg)
        &&& (st == DeltaStatus::Apply ==> dmax > rm)
    })
{}

proof fn lemma_sender_offers_iff_ahead(sg: u64, sm: u64, rg: u64, rm: u64)
    ensures (decision_spec(sg, sm, rg, rm) is Some) <==> sm > rm
{}

// L.owner_rejects (C05)
proof fn lemma_owner_rejects(g: u64, m: u64, from: u64, dgc: u64, dmax: u64)
    requires dmax <= m, dgc <= m
    ensures status_spec(m, g, from, dgc, dmax) == DeltaStatus::Reject
{}
}
fn main() {}
