// Probe: NodeState::check_delta_status / apply_delta copied from chitchat/src/state.rs:143-239
// with rules R1 (tracing dropped), R3 (pub), R4 (contracts), R5 (assert! -> vpanic), R6 (for -> loop).
// `verus apply_delta.rs`  ->  10 verified, 0 errors
use vstd::prelude::*;
use std::collections::BTreeMap;
use vstd::std_specs::btree::*;
use vstd::std_specs::iter::IteratorSpec;
verus! {

pub type Version = u64;

#[verifier::external_body]
#[derive(Clone, Copy, Debug)]
pub struct Instant { x: u64 }

#[verifier::external_body]
pub struct ChitchatId { x: u64 }

#[derive(Clone, Copy, Debug)]
pub enum DeletionStatus {
    Set,
    Deleted(Instant),
    DeleteAfterTtl(Instant),
}

#[derive(Clone, Copy, Debug, Eq, PartialEq)]
#[repr(u8)]
pub enum DeletionStatusMutation {
    Set = 0u8,
    Delete = 1u8,
    DeleteAfterTtl = 2u8,
}

impl DeletionStatusMutation {
    pub fn into_status(self, now: Instant) -> DeletionStatus {
        match self {
            DeletionStatusMutation::Set => DeletionStatus::Set,
            DeletionStatusMutation::DeleteAfterTtl => DeletionStatus::DeleteAfterTtl(now),
            DeletionStatusMutation::Delete => DeletionStatus::Deleted(now),
        }
    }

    pub fn scheduled_for_deletion(&self) -> bool {
        match self {
            DeletionStatusMutation::Set => false,
            DeletionStatusMutation::Delete | DeletionStatusMutation::DeleteAfterTtl => true,
        }
    }
}

pub struct VersionedValue {
    pub value: String,
    pub version: Version,
    pub status: DeletionStatus,
}

pub struct KeyValueMutation {
    pub key: String,
    pub value: String,
    pub version: Version,
    pub status: DeletionStatusMutation,
}

pub struct NodeDelta {
    pub chitchat_id: ChitchatId,
    pub from_version_excluded: Version,
    pub last_gc_version: Version,
    pub key_values: Vec<KeyValueMutation>,
    pub max_version: Version,
}

#[derive(Copy, Clone, Debug, PartialEq, Eq)]
pub enum DeltaStatus { Reject, Apply, ApplyAfterReset }

pub struct NodeState {
    pub chitchat_id: ChitchatId,
    pub key_values: BTreeMap<String, VersionedValue>,
    pub max_version: Version,
    pub last_gc_version: Version,
}

pub open spec fn nd_wf(nd: NodeDelta) -> bool {
    forall|i: int| 0 <= i < nd.key_values.len() ==> (#[trigger] nd.key_values[i]).version <= nd.max_version
}

#[verifier::external_body]
fn vpanic() requires false { panic!() }

impl NodeState {
    pub fn max_version(&self) -> (r: Version) ensures r == self.max_version { self.max_version }

    #[verifier::external_body]
    fn reset_node(&mut self, last_gc_version: Version)
        ensures final(self).max_version == 0, final(self).last_gc_version == last_gc_version,
                final(self).key_values@ == Map::<String, VersionedValue>::empty()
    { unimplemented!() }

    #[verifier::external_body]
    pub fn set_versioned_value(&mut self, key: String, versioned_value_update: VersionedValue)
        ensures final(self).last_gc_version == old(self).last_gc_version,
          final(self).max_version == (if versioned_value_update.version > old(self).max_version { versioned_value_update.version } else { old(self).max_version }),
    { unimplemented!() }

    fn check_delta_status(&self, node_delta: &NodeDelta) -> (r: DeltaStatus)
      ensures r == DeltaStatus::Apply ==> self.max_version < node_delta.max_version,
         r == DeltaStatus::ApplyAfterReset ==> node_delta.last_gc_version > self.last_gc_version,
    {
        if node_delta.from_version_excluded > self.max_version {
            return DeltaStatus::Reject;
        }
        let compatible_without_reset =
            node_delta.last_gc_version <= self.last_gc_version ||
            node_delta.last_gc_version <= self.max_version();
        if !compatible_without_reset {
            if node_delta.from_version_excluded != 0 {
                return DeltaStatus::Reject;
            } else {
                return DeltaStatus::ApplyAfterReset;
            }
        }
        if self.max_version() < node_delta.max_version {
            DeltaStatus::Apply
        } else {
            DeltaStatus::Reject
        }
    }

    #[verifier::exec_allows_no_decreases_clause]
    fn apply_delta(&mut self, node_delta: NodeDelta, now: Instant) -> (r: DeltaStatus)
      requires nd_wf(node_delta)
      ensures r == DeltaStatus::Reject ==> final(self).max_version == old(self).max_version && final(self).last_gc_version == old(self).last_gc_version,
              r == DeltaStatus::Apply ==> final(self).max_version == node_delta.max_version && final(self).max_version > old(self).max_version && final(self).last_gc_version == old(self).last_gc_version,
              r == DeltaStatus::ApplyAfterReset ==> final(self).last_gc_version > old(self).last_gc_version,
    {
        let delta_status = self.check_delta_status(&node_delta);

        match delta_status {
            DeltaStatus::Reject => {
                return delta_status;
            }
            DeltaStatus::Apply => {}
            DeltaStatus::ApplyAfterReset => {
                self.reset_node(node_delta.last_gc_version);
            }
        }

        let current_max_version = self.max_version();

        let mut iter__ = node_delta.key_values.into_iter();
        loop
            invariant
                iter__.obeys_prophetic_iter_laws(),
                self.last_gc_version == (if delta_status == DeltaStatus::ApplyAfterReset { node_delta.last_gc_version } else { old(self).last_gc_version }),
                forall|i: int| 0 <= i < iter__.remaining().len() ==> (#[trigger] iter__.remaining()[i]).version <= node_delta.max_version,
                self.max_version <= node_delta.max_version,
        {
            let Some(key_value_mutation) = iter__.next() else { break; };
            if key_value_mutation.version <= current_max_version {
                // We already know about this KV.
                continue;
            }
            if key_value_mutation.status.scheduled_for_deletion() {
                // This KV has already been GCed.
                if key_value_mutation.version <= self.last_gc_version {
                    continue;
                }
            }
            let new_versioned_value = VersionedValue {
                value: key_value_mutation.value,
                version: key_value_mutation.version,
                status: key_value_mutation.status.into_status(now),
            };
            self.set_versioned_value(key_value_mutation.key, new_versioned_value);
        }

        if !(node_delta.max_version >= self.max_version) { vpanic(); }
        self.max_version = node_delta.max_version;
        delta_status
    }
}
}
fn main() {}
