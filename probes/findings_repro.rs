// Design-phase reproduction of the five defects of DESIGN.md §6 on the REAL code.
// Usage (what was done while probing): copy /repo to a scratch dir, append this file's module to
// chitchat/src/lib.rs, run `cargo test --offline --lib probe_findings -- --nocapture`.
// Every test below FAILS on the unchanged tree (that is the finding):
//   f2_non_ascii_key            panics at listener.rs:110
//   f3_setmaxversion_after_kv   panics at state.rs:236
//   f4_reset_empty / f4_reset_lower_gc  panic at lib.rs:406
//   c07_header_overflow         found = Some((1591, 65306, 200, 65510))  -> SYN-ACK of 65,510 bytes
//   kf1_resurrection            "deleted key resurrected": C copy of A final gc=4 max=4 k=Some("old")
#[cfg(test)]
mod probe_findings {
    use super::*;
    use crate::serialize::*;
    use std::time::Duration;

    fn mk(port: u16) -> Chitchat {
        let config = ChitchatConfig::for_test(port);
        let (_tx, rx) = watch::channel(Default::default());
        Chitchat::with_chitchat_id_and_seeds(config, rx, Vec::new())
    }

    #[test]
    fn f2_non_ascii_key() {
        let mut n = mk(1);
        n.self_node_state().set("é", "v");
    }

    #[test]
    fn f3_setmaxversion_after_kv() {
        let mut n = mk(1);
        let id = n.self_chitchat_id().clone();
        let mut w = CompressedStreamWriter::with_block_threshold(16_384);
        let mut op = vec![0u8]; // Node op
        id.serialize(&mut op); 0u64.serialize(&mut op); 0u64.serialize(&mut op);
        op.push(1u8); "k".serialize(&mut op); "v".serialize(&mut op); 10u64.serialize(&mut op); op.push(0u8); // KV v10
        op.push(2u8); 1u64.serialize(&mut op); // SetMaxVersion 1
        struct Raw(Vec<u8>);
        impl Serializable for Raw { fn serialize(&self, b: &mut Vec<u8>) { b.extend(&self.0) } fn serialized_len(&self) -> usize { self.0.len() } }
        w.append(&Raw(op));
        let payload = w.finish();
        let mut msg = Vec::new();
        msg.extend(45_139u16.to_le_bytes()); msg.push(0); msg.push(2); // header, Ack
        msg.extend(&payload);
        let m = ChitchatMessage::deserialize(&mut &msg[..]).unwrap();
        n.process_message(m);
    }

    #[test]
    fn f4_reset_empty() {
        let mut n = mk(1);
        let other = ChitchatId::for_local_test(2);
        n.reset_node_state_if_update(&other, std::iter::empty(), 5, 0);
    }
    #[test]
    fn f4_reset_lower_gc() {
        let mut n = mk(1);
        let other = ChitchatId::for_local_test(2);
        {
            let ns = n.cluster_state.node_state_mut_or_init(&other);
            ns.set_last_gc_version(5);
            ns.set_max_version(3);
        }
        n.reset_node_state_if_update(&other, vec![("a".to_string(), VersionedValue::for_test("x", 7))].into_iter(), 7, 2);
    }

    #[test]
    fn c07_header_overflow() {
        use rand::RngExt;
        let mut found = None;
        'outer: for last_filler in 1500..1700usize {
            let mut b = mk(1);
            for i in 0..39u16 {
                let width = if i == 38 { last_filler } else { 1632 };
                let id = ChitchatId::new(format!("{:0>width$}", i, width = width), 0, ([127,0,0,1], 1000+i).into());
                b.cluster_state.node_state_mut_or_init(&id);
            }
            let mut rng = rand::rng();
            let rid: String = (0..10).map(|_| (rng.random_range(33u8..127u8)) as char).collect();
            let id = ChitchatId::new(rid, 0, ([127,0,0,1], 999).into());
            b.cluster_state.node_state_mut_or_init(&id);
            let own_digest_len = b.compute_digest(&HashSet::new()).serialized_len();
            if own_digest_len + 101 > MAX_UDP_DATAGRAM_PAYLOAD_SIZE { continue; }
            let mtu = MAX_UDP_DATAGRAM_PAYLOAD_SIZE - 1 - own_digest_len;
            if mtu > 200 || mtu < 100 { continue; }
            let vlen = mtu - 63; // node op (44) + kv op (15+vlen) + 3 block meta + 1 end tag == mtu
            {
                let ns = b.cluster_state.node_state_mut_or_init(&id);
                let val: String = (0..vlen).map(|_| (rng.random_range(33u8..127u8)) as char).collect();
                ns.set("k", val);
            }
            let syn = ChitchatMessage::Syn { cluster_id: "default-cluster".to_string(), digest: Digest::default() };
            let reply = b.process_message(syn).unwrap();
            let bytes = reply.serialize_to_vec();
            assert_eq!(bytes.len(), reply.serialized_len());
            if bytes.len() > MAX_UDP_DATAGRAM_PAYLOAD_SIZE {
                found = Some((last_filler, own_digest_len, mtu, bytes.len()));
                break 'outer;
            }
        }
        panic!("found = {:?}", found);
    }

    fn hs(x: &mut Chitchat, y: &mut Chitchat) {
        let syn = x.create_syn_message();
        let synack = y.process_message(syn).unwrap();
        let ack = x.process_message(synack).unwrap();
        assert!(y.process_message(ack).is_none());
    }

    #[test]
    fn kf1_resurrection() {
        use rand::RngExt;
        let mut a = mk(1); let mut b = mk(2); let mut c = mk(3);
        a.config.marked_for_deletion_grace_period = Duration::from_secs(0);
        let mut rng = rand::rng();
        let big_a: String = (0..60_000).map(|_| (rng.random_range(33u8..127u8)) as char).collect();
        let big_b: String = (0..60_000).map(|_| (rng.random_range(33u8..127u8)) as char).collect();
        a.self_node_state().set("j", &big_a);   // v1
        a.self_node_state().set("k", "old");    // v2
        hs(&mut b, &mut a); hs(&mut b, &mut a);  // b learns j@1, k@2  -> B copy (0,2)
        let aid = a.self_chitchat_id().clone();
        a.self_node_state().set("m", &big_b);   // v3
        a.self_node_state().delete("k");        // v4
        a.gc_keys_marked_for_deletion();        // A: gc=4 max=4
        hs(&mut c, &mut a);                      // C reset, truncated by MTU -> (4,1)
        hs(&mut c, &mut b);                      // stale B relays k@2 -> (4,2) k="old"
        for _ in 0..5 { hs(&mut c, &mut a); }    // C catches up -> (4,4)
        let n = c.node_state(&aid).unwrap();
        eprintln!("C copy of A final: gc={} max={} k={:?}", n.last_gc_version(), n.max_version(), n.get("k"));
        assert!(n.get("k").is_none(), "deleted key resurrected");
    }
}
