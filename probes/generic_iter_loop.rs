use vstd::prelude::*;
verus! {
pub struct VV { pub version: u64 }
pub struct NS { pub max_version: u64, pub gc: u64 }
#[verifier::external_body]
fn vpanic() requires false { panic!() }
impl NS {
    #[verifier::external_body]
    pub fn set_versioned_value(&mut self, key: String, v: VV)
        ensures final(self).gc == old(self).gc,
          final(self).max_version == (if v.version > old(self).max_version { v.version } else { old(self).max_version }),
    { unimplemented!() }
}
#[verifier::exec_allows_no_decreases_clause]
pub fn reset(node_state: &mut NS, key_values: impl Iterator<Item = (String, VV)>, max_version: u64, last_gc_version: u64)
    ensures final(node_state).max_version >= old(node_state).max_version
{
    let mut it = key_values.into_iter();
    loop
        invariant node_state.max_version >= old(node_state).max_version
    {
        let Some((key, value)) = it.next() else { break; };
        node_state.set_versioned_value(key, value)
    }
}
}
fn main() {}
