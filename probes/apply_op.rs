// Probe: DeltaBuilder::{apply_op, flush} copied from chitchat/src/delta.rs:372-421 with R8 (anyhow).
// `verus apply_op.rs` -> 1 error: postcondition db_wf fails  == finding F-3
// (SetMaxVersion may lower max_version below a KV version already pushed).
// With the one-line guard marked FIX below un-commented -> 4 verified, 0 errors.
use vstd::prelude::*;
use std::collections::HashSet;
verus! {
pub type Version = u64;

#[derive(Clone, Copy, PartialEq, Eq, Hash)]
pub struct ChitchatId { pub x: u64 }

#[verifier::external_body]
pub struct AnyhowError { x: u64 }
#[verifier::external_body]
pub fn anyhow_error() -> AnyhowError { unimplemented!() }

#[derive(Clone, Copy, Debug, Eq, PartialEq)]
#[repr(u8)]
pub enum DeletionStatusMutation { Set = 0u8, Delete = 1u8, DeleteAfterTtl = 2u8 }

pub struct KeyValueMutation {
    pub key: String,
    pub value: String,
    pub version: Version,
    pub status: DeletionStatusMutation,
}
pub struct NodeDelta {
    pub chitchat_id: ChitchatId,
    pub from_version_excluded: Version,
    pub last_gc_version: Version,
    pub key_values: Vec<KeyValueMutation>,
    pub max_version: Version,
}
pub struct Delta {
    pub node_deltas: Vec<NodeDelta>,
    pub serialized_len: usize,
}
pub enum DeltaOp {
    Node { chitchat_id: ChitchatId, last_gc_version: Version, from_version_excluded: u64 },
    KeyValue(KeyValueMutation),
    SetMaxVersion { max_version: Version },
}
pub struct DeltaBuilder {
    pub existing_nodes: HashSet<ChitchatId>,
    pub delta: Delta,
    pub current_node_delta: Option<NodeDelta>,
}

pub open spec fn nd_wf(nd: NodeDelta) -> bool {
    forall|i: int| 0 <= i < nd.key_values.len() ==> (#[trigger] nd.key_values[i]).version <= nd.max_version
}
pub open spec fn db_wf(b: DeltaBuilder) -> bool {
    (b.current_node_delta is Some ==> nd_wf(b.current_node_delta->0))
    && forall|i: int| 0 <= i < b.delta.node_deltas.len() ==> nd_wf(#[trigger] b.delta.node_deltas[i])
}

impl DeltaBuilder {
    fn apply_op(&mut self, op: DeltaOp) -> (r: Result<(), AnyhowError>)
        requires db_wf(*old(self)), vstd::std_specs::hash::obeys_key_model::<ChitchatId>(),
        ensures db_wf(*final(self)),
    {
        match op {
            DeltaOp::Node {
                chitchat_id,
                last_gc_version,
                from_version_excluded,
            } => {
                self.flush();
                if !(!self.existing_nodes.contains(&chitchat_id)) { return Err(anyhow_error()); }
                self.existing_nodes.insert(chitchat_id.clone());
                self.current_node_delta = Some(NodeDelta {
                    chitchat_id,
                    last_gc_version,
                    from_version_excluded,
                    key_values: Vec::new(),
                    max_version: 0,
                });
            }
            DeltaOp::KeyValue(key_value_mutation) => {
                let current_node_delta = match self
                    .current_node_delta
                    .as_mut() { Some(v) => v, None => return Err(anyhow_error()) };
                if !(current_node_delta.max_version < key_value_mutation.version) { return Err(anyhow_error()); }
                current_node_delta.max_version = key_value_mutation.version;
                current_node_delta.key_values.push(key_value_mutation);
            }
            DeltaOp::SetMaxVersion { max_version } => {
                let Some(current_node_delta) = self.current_node_delta.as_mut() else {
                    return Err(anyhow_error());
                };
                // FIX: if !(current_node_delta.max_version <= max_version) { return Err(anyhow_error()); }
                current_node_delta.max_version = max_version;
            }
        }
        Ok(())
    }

    fn flush(&mut self)
        requires db_wf(*old(self)),
        ensures db_wf(*final(self)), final(self).current_node_delta is None, final(self).existing_nodes == old(self).existing_nodes,
    {
        let Some(node_delta) = self.current_node_delta.take() else {
            return;
        };
        self.delta.node_deltas.push(node_delta);
    }
}
}
fn main() {}
