use vstd::prelude::*;
verus! {
#[verifier::external_body]
pub fn fill(dst: &mut [u8]) -> (r: usize)
    ensures final(dst)@.len() == old(dst)@.len(), r <= old(dst)@.len()
{ 0 }

pub struct W { pub a: Vec<u8>, pub t: usize }
impl W {
    fn f(&mut self)
        requires old(self).a@.len() == 10
        ensures final(self).t == old(self).t, final(self).a@.len() == 10
    {
        let n = fill(&mut self.a[..]);
        assert(n <= 10);
    }
    fn g(&mut self)
        requires old(self).a@.len() == 10
        ensures final(self).t == old(self).t, final(self).a@.len() == 10
    {
        let n = fill(self.a.as_mut_slice());
        assert(n <= 10);
    }
}
}
fn main() {}
