// Probe: NodeState::{get_versioned, set, set_with_version, try_set_heartbeat} from state.rs:264-383
// `verus set_heartbeat.rs` -> 7 verified, 0 errors (warnings about external trait ToString are expected)
use vstd::prelude::*;
use std::collections::BTreeMap;
use vstd::std_specs::btree::*;
verus! {
pub type Version = u64;
#[verifier::external_trait_specification]
pub trait ExToString {
    type ExternalTraitSpecificationFor: ToString;
    fn to_string(&self) -> String;
}

#[derive(Clone, Copy, Debug)]
pub struct Instant { pub x: u64 }
#[derive(Clone, Copy, Debug)]
pub enum DeletionStatus { Set, Deleted(Instant), DeleteAfterTtl(Instant) }
pub struct VersionedValue { pub value: String, pub version: Version, pub status: DeletionStatus }
#[derive(Debug, Clone, Copy, Default, Eq, PartialEq, Hash, Ord, PartialOrd)]
pub struct Heartbeat(pub u64);
// A-derive: derived comparisons on a one-field tuple struct compare the field.
impl vstd::std_specs::cmp::PartialEqSpecImpl for Heartbeat {
    open spec fn obeys_eq_spec() -> bool { true }
    open spec fn eq_spec(&self, other: &Heartbeat) -> bool { self.0 == other.0 }
}
impl vstd::std_specs::cmp::PartialOrdSpecImpl for Heartbeat {
    open spec fn obeys_partial_cmp_spec() -> bool { true }
    open spec fn partial_cmp_spec(&self, other: &Heartbeat) -> Option<core::cmp::Ordering> {
        if self.0 < other.0 { Some(core::cmp::Ordering::Less) } else if self.0 == other.0 { Some(core::cmp::Ordering::Equal) } else { Some(core::cmp::Ordering::Greater) }
    }
}

pub struct NodeState {
    pub heartbeat: Heartbeat,
    pub key_values: BTreeMap<String, VersionedValue>,
    pub max_version: Version,
    pub last_gc_version: Version,
}

#[verifier::external_body]
fn vpanic() requires false { panic!() }

impl NodeState {
    pub fn get_versioned(&self, key: &str) -> Option<&VersionedValue>
      requires key_obeys_cmp_spec::<String>(), borrowed_key_ordering_matches::<String, str>(),
    {
        self.key_values.get(key)
    }

    #[verifier::external_body]
    pub fn set_versioned_value(&mut self, key: String, versioned_value_update: VersionedValue)
        ensures final(self).last_gc_version == old(self).last_gc_version,
          final(self).max_version == (if versioned_value_update.version > old(self).max_version { versioned_value_update.version } else { old(self).max_version }),
    { unimplemented!() }

    pub fn set(&mut self, key: impl ToString, value: impl ToString)
      requires key_obeys_cmp_spec::<String>(), borrowed_key_ordering_matches::<String, str>(), old(self).max_version < u64::MAX
      ensures final(self).max_version == old(self).max_version || final(self).max_version == old(self).max_version + 1
    {
        let key = key.to_string();
        let value = value.to_string();
        if let Some(previous_versioned_value) = self.get_versioned(&key) {
            if previous_versioned_value.value == value
                && matches!(previous_versioned_value.status, DeletionStatus::Set)
            {
                // No need to change anything, the value is already set!
                return;
            }
        }
        let new_version = self.max_version + 1;
        self.set_with_version(key, value, new_version);
    }

    fn set_with_version(&mut self, key: impl ToString, value: impl ToString, version: Version)
      requires version > old(self).max_version
      ensures final(self).max_version == version,
    {
        if !(version > self.max_version) { vpanic(); }
        self.set_versioned_value(
            key.to_string(),
            VersionedValue {
                value: value.to_string(),
                version,
                status: DeletionStatus::Set,
            },
        );
    }

    pub fn try_set_heartbeat(&mut self, heartbeat_new_value: Heartbeat) -> (r: bool)
      ensures r ==> heartbeat_new_value.0 > old(self).heartbeat.0 && old(self).heartbeat.0 != 0,
              final(self).heartbeat.0 >= old(self).heartbeat.0,
    {
        if self.heartbeat.0 == 0 {
            self.heartbeat = heartbeat_new_value;
            return false;
        }
        if heartbeat_new_value > self.heartbeat {
            self.heartbeat = heartbeat_new_value;
            true
        } else {
            false
        }
    }
}
}
fn main() {}
