use vstd::prelude::*;
verus! {
#[verifier::external_body] pub struct Digest { x: u64 }
#[verifier::external_body] pub struct Delta { x: u64 }
#[verifier::external_body] pub struct ClusterState { x: u64 }
#[verifier::external_body] pub struct FailureDetector { x: u64 }
pub assume_specification<'a> [<String as PartialEq<&'a str>>::ne] (a: &String, b: &&str) -> (r: bool)
    ensures r == (a@ != b@);

pub struct ChitchatConfig { pub cluster_id: String }

pub enum ChitchatMessage {
    Syn { cluster_id: String, digest: Digest },
    SynAck { digest: Digest, delta: Delta },
    Ack { delta: Delta },
    BadCluster,
}

pub struct Chitchat {
    pub config: ChitchatConfig,
    pub cluster_state: ClusterState,
    pub failure_detector: FailureDetector,
}

// ghost abstraction of the cluster state minus the local heartbeat
pub uninterp spec fn cs_except_self_hb(cs: ClusterState) -> int;

#[verifier::external_body]
fn havoc_chitchat(c: &mut Chitchat) -> (r: Option<ChitchatMessage>) { unimplemented!() }

impl Chitchat {
    #[verifier::external_body]
    pub fn update_self_heartbeat(&mut self)
        ensures final(self).config == old(self).config, final(self).failure_detector == old(self).failure_detector,
                cs_except_self_hb(final(self).cluster_state) == cs_except_self_hb(old(self).cluster_state),
    { unimplemented!() }

    pub fn cluster_id(&self) -> (r: &str) ensures r@ == self.config.cluster_id@ {
        &self.config.cluster_id
    }

    pub fn process_message(&mut self, msg: ChitchatMessage) -> (r: Option<ChitchatMessage>)
        ensures
            (msg is Syn && msg->Syn_cluster_id@ != old(self).config.cluster_id@) ==> (
                r is Some && r->0 is BadCluster
                && final(self).failure_detector == old(self).failure_detector
                && cs_except_self_hb(final(self).cluster_state) == cs_except_self_hb(old(self).cluster_state)),
            msg is BadCluster ==> (r is None
                && final(self).failure_detector == old(self).failure_detector
                && cs_except_self_hb(final(self).cluster_state) == cs_except_self_hb(old(self).cluster_state)),
    {
        self.update_self_heartbeat();

        match msg {
            ChitchatMessage::Syn { cluster_id, digest } => {
                if cluster_id != self.cluster_id() {
                    return Some(ChitchatMessage::BadCluster);
                }
                havoc_chitchat(self)
            }
            ChitchatMessage::SynAck { digest, delta } => {
                havoc_chitchat(self)
            }
            ChitchatMessage::Ack { delta } => {
                havoc_chitchat(self)
            }
            ChitchatMessage::BadCluster => {
                None
            }
        }
    }
}
}
fn main() {}
