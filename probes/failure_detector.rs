// Probe: FailureDetector::{phi, update_node_liveness} from failure_detector.rs:57-78,126-128
// `verus failure_detector.rs` -> 7 verified, 0 errors
// Notes: HashMap::get_mut needs the assume_specification below (A-std); compound assignment on
// f64 (`self.sum -= x`) crashes Verus (get_range Float(64)) -> rule R7.
#![feature(allocator_api)]
use vstd::prelude::*;
use std::collections::{HashMap, HashSet};
verus! {
#[derive(Clone, Copy, Debug)]
pub struct Instant { pub x: u64 }
#[verifier::external_body]
pub fn instant_now() -> Instant { unimplemented!() }

#[derive(Clone, Copy, PartialEq, Eq, Hash)]
pub struct ChitchatId { pub x: u64 }

pub struct FailureDetectorConfig { pub phi_threshold: f64, pub sampling_window_size: usize }

pub struct BoundedArrayStats {
    pub values: Box<[f64]>,
    pub is_filled: bool,
    pub index: usize,
    pub sum: f64,
}

impl BoundedArrayStats {
    pub fn clear(&mut self) {
        self.index = 0;
        self.is_filled = false;
        self.sum = 0f64;
    }
    fn len(&self) -> usize {
        if self.is_filled {
            return self.values.len();
        }
        self.index
    }
}

pub struct SamplingWindow { pub intervals: BoundedArrayStats, pub last_heartbeat: Option<Instant> }
impl SamplingWindow {
    #[verifier::external_body]
    pub fn phi(&self) -> (r: Option<f64>) ensures self.intervals.index == 0 && !self.intervals.is_filled ==> r is None { unimplemented!() }
    pub fn reset(&mut self) { self.intervals.clear(); }
}

pub assume_specification<'a, K, V, S, A, Q> [std::collections::HashMap::<K, V, S, A>::get_mut] (_0: &'a mut std::collections::HashMap<K, V, S, A>, _1: &Q) -> std::option::Option<&'a mut V>
           where
           A: std::alloc::Allocator,
           K: std::cmp::Eq + std::hash::Hash + std::borrow::Borrow<Q>,
           Q: std::marker::MetaSized + std::hash::Hash + std::cmp::Eq + ?Sized,
           S: std::hash::BuildHasher,;

pub struct FailureDetector {
    pub node_samples: HashMap<ChitchatId, SamplingWindow>,
    pub config: FailureDetectorConfig,
    pub live_nodes: HashSet<ChitchatId>,
    pub dead_nodes: HashMap<ChitchatId, Instant>,
}
impl FailureDetector {
    fn phi(&mut self, chitchat_id: &ChitchatId) -> Option<f64>
      requires vstd::std_specs::hash::obeys_key_model::<ChitchatId>()
    {
        self.node_samples.get(chitchat_id)?.phi()
    }

    pub fn update_node_liveness(&mut self, chitchat_id: &ChitchatId)
      requires vstd::std_specs::hash::obeys_key_model::<ChitchatId>()
      ensures final(self).live_nodes@.contains(*chitchat_id) != final(self).dead_nodes@.contains_key(*chitchat_id)
    {
        let phi_opt = self.phi(chitchat_id);
        let is_alive = self
            .phi(chitchat_id)
            .map(|phi| phi <= self.config.phi_threshold)
            .unwrap_or(false);
        if is_alive {
            self.live_nodes.insert(chitchat_id.clone());
            self.dead_nodes.remove(chitchat_id);
        } else {
            self.live_nodes.remove(chitchat_id);
            if !self.dead_nodes.contains_key(chitchat_id) {
                self.dead_nodes.insert(chitchat_id.clone(), instant_now());
            }
            if let Some(node_sample) = self.node_samples.get_mut(chitchat_id) {
                node_sample.reset();
            }
        }
    }
}
}
fn main() {}
