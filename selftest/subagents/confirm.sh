#!/bin/bash
# confirm.sh <ID> <lib|test:name> <filter>
id=$1; kind=$2; filter=$3
cd /tmp/wt/$id || exit 2
export RUSTUP_TOOLCHAIN=1.88.0 RUST_BACKTRACE=0
log=/tmp/wt-out/confirm_$id.log
: > $log
if [ "$kind" = lib ]; then demo="cargo test -p chitchat --offline --lib $filter"; else demo="cargo test -p chitchat --offline --test ${kind#test:}"; fi
echo "## demo WITH change (expect failure)" >> $log
$demo >> $log 2>&1; rc1=$?
echo "rc_with=$rc1" >> $log
git apply -R /tmp/wt-out/$id/patch.diff >> $log 2>&1 || echo "REVERT FAILED" >> $log
echo "## demo WITHOUT change (expect pass)" >> $log
$demo >> $log 2>&1; rc2=$?
echo "rc_without=$rc2" >> $log
git apply /tmp/wt-out/$id/patch.diff >> $log 2>&1 || echo "REAPPLY FAILED" >> $log
echo "## suite WITH change, demo skipped (expect pass)" >> $log
if [ "$kind" = lib ]; then
  cargo test --workspace --offline --no-fail-fast -- --skip $filter >> $log 2>&1; rc3=$?
else
  mv chitchat/tests/${kind#test:}.rs /tmp/wt-out/$id/_demo_moved.rs
  cargo test --workspace --offline --no-fail-fast >> $log 2>&1; rc3=$?
  mv /tmp/wt-out/$id/_demo_moved.rs chitchat/tests/${kind#test:}.rs
fi
echo "rc_suite=$rc3" >> $log
grep -E "^test result|FAILED|failed" $log | tail -30 > /tmp/wt-out/confirm_$id.summary
echo "$id rc_with=$rc1 rc_without=$rc2 rc_suite=$rc3" >> /tmp/wt-out/confirm_all.txt
