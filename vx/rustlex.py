"""Minimal Rust lexer + item locator used by the mechanical extractor.

It understands line/block (nested) comments, string / raw-string / byte-string literals, char
literals vs. lifetimes, identifiers, numbers and punctuation.  It does NOT parse Rust; items are
located by brace matching at a given nesting depth.  Anything it cannot locate raises
ExtractError, which the orchestrator turns into exit 2 ("lost anchor"), never into a violation.
"""
import re
from dataclasses import dataclass


class ExtractError(Exception):
    pass


@dataclass
class Tok:
    kind: str   # ident | num | str | char | life | punct | comment
    text: str
    start: int
    end: int


_IDENT = re.compile(r"[A-Za-z_][A-Za-z0-9_]*")
_NUM = re.compile(r"[0-9][0-9A-Za-z_]*(\.[0-9][0-9A-Za-z_]*)?")
_PUNCT3 = ("<<=", ">>=", "...", "..=")
_PUNCT2 = ("->", "=>", "::", "==", "!=", "<=", ">=", "&&", "||", "+=", "-=", "*=", "/=", "%=",
           "^=", "&=", "|=", "<<", ">>", "..")


def lex(src: str, keep_comments=False):
    toks = []
    i, n = 0, len(src)
    while i < n:
        c = src[i]
        if c.isspace():
            i += 1
            continue
        if src.startswith("//", i):
            j = src.find("\n", i)
            j = n if j < 0 else j
            if keep_comments:
                toks.append(Tok("comment", src[i:j], i, j))
            i = j
            continue
        if src.startswith("/*", i):
            depth, j = 1, i + 2
            while j < n and depth:
                if src.startswith("/*", j):
                    depth += 1
                    j += 2
                elif src.startswith("*/", j):
                    depth -= 1
                    j += 2
                else:
                    j += 1
            if keep_comments:
                toks.append(Tok("comment", src[i:j], i, j))
            i = j
            continue
        # raw strings r"..." r#"..."# br#"..."#
        m = re.match(r"b?r(#*)\"", src[i:i + 40])
        if m:
            hashes = m.group(1)
            close = '"' + hashes
            j = src.find(close, i + m.end())
            if j < 0:
                raise ExtractError("unterminated raw string")
            j += len(close)
            toks.append(Tok("str", src[i:j], i, j))
            i = j
            continue
        if c == '"' or (c == 'b' and i + 1 < n and src[i + 1] == '"'):
            j = i + (2 if c == 'b' else 1)
            while j < n and src[j] != '"':
                j += 2 if src[j] == '\\' else 1
            j += 1
            toks.append(Tok("str", src[i:j], i, j))
            i = j
            continue
        if c == "'" or (c == 'b' and i + 1 < n and src[i + 1] == "'"):
            k = i + (1 if c == 'b' else 0)
            # char literal: '\x', 'c'   lifetime: 'ident (no closing quote right after)
            if k + 1 < n and src[k + 1] == '\\':
                j = src.find("'", k + 3)
                j = j + 1
                toks.append(Tok("char", src[i:j], i, j))
                i = j
                continue
            if k + 2 < n and src[k + 2] == "'":
                j = k + 3
                toks.append(Tok("char", src[i:j], i, j))
                i = j
                continue
            # multi-byte char literal
            m2 = re.match(r"'[^'\\\n]'", src[k:k + 8])
            if m2:
                j = k + m2.end()
                toks.append(Tok("char", src[i:j], i, j))
                i = j
                continue
            m3 = _IDENT.match(src, k + 1)
            if m3:
                toks.append(Tok("life", src[i:m3.end()], i, m3.end()))
                i = m3.end()
                continue
            raise ExtractError(f"cannot lex quote at {i}")
        m = _IDENT.match(src, i)
        if m:
            toks.append(Tok("ident", m.group(0), i, m.end()))
            i = m.end()
            continue
        m = _NUM.match(src, i)
        if m:
            # avoid swallowing `0..n` as a float
            t = m.group(0)
            if ".." in src[i:i + len(t) + 1] and "." in t:
                t = t.split(".")[0]
            toks.append(Tok("num", t, i, i + len(t)))
            i += len(t)
            continue
        for p in _PUNCT3:
            if src.startswith(p, i):
                toks.append(Tok("punct", p, i, i + 3))
                i += 3
                break
        else:
            for p in _PUNCT2:
                if src.startswith(p, i):
                    toks.append(Tok("punct", p, i, i + 2))
                    i += 2
                    break
            else:
                toks.append(Tok("punct", c, i, i + 1))
                i += 1
    return toks


OPEN = {"(": ")", "[": "]", "{": "}"}
CLOSE = {v: k for k, v in OPEN.items()}


def match_close(toks, i):
    """toks[i] is an opening delimiter; return index of its closing delimiter."""
    assert toks[i].text in OPEN, toks[i]
    depth = 0
    for j in range(i, len(toks)):
        t = toks[j]
        if t.kind != "punct":
            continue
        if t.text in OPEN:
            depth += 1
        elif t.text in CLOSE:
            depth -= 1
            if depth == 0:
                return j
    raise ExtractError("unbalanced delimiters")


def norm(toks):
    return " ".join(t.text for t in toks)


def find_blocks(toks, lo, hi, keyword):
    """Yield (kw_index, open_brace_index, close_brace_index) of every `keyword ... { ... }` whose
    keyword token sits at brace depth 0 relative to [lo, hi)."""
    depth = 0
    i = lo
    while i < hi:
        t = toks[i]
        if t.kind == "punct" and t.text in OPEN:
            depth += 1
        elif t.kind == "punct" and t.text in CLOSE:
            depth -= 1
        elif depth == 0 and t.kind == "ident" and t.text == keyword:
            # find the body `{` : first `{` at paren/bracket depth 0 (or `;` => no body)
            j = i + 1
            d2 = 0
            while j < hi:
                u = toks[j]
                if u.kind == "punct":
                    if u.text in ("(", "["):
                        d2 += 1
                    elif u.text in (")", "]"):
                        d2 -= 1
                    elif u.text == "{" and d2 == 0:
                        break
                    elif u.text == ";" and d2 == 0:
                        j = None
                        break
                j += 1
            if j is None or j >= hi:
                i += 1
                continue
            k = match_close(toks, j)
            yield (i, j, k)
            i = k + 1
            continue
        i += 1


def item_start(toks, src, kw_index, lo):
    """Walk back from the keyword over `pub`, `pub(crate)`, `async`, `const`, `unsafe` and
    attributes `#[...]`; returns (index of first token of the item incl. attrs, index of first
    non-attribute token)."""
    i = kw_index
    first_non_attr = kw_index
    while i - 1 >= lo:
        p = toks[i - 1]
        if p.kind == "ident" and p.text in ("pub", "async", "const", "unsafe", "default"):
            i -= 1
            first_non_attr = i
            continue
        if p.kind == "punct" and p.text == ")":
            # pub(crate) / pub(super)
            j = i - 1
            while j > lo and toks[j].text != "(":
                j -= 1
            if j - 1 >= lo and toks[j - 1].text == "pub":
                i = j - 1
                first_non_attr = i
                continue
            break
        if p.kind == "punct" and p.text == "]":
            # attribute #[...]
            d = 0
            j = i - 1
            while j >= lo:
                if toks[j].text == "]":
                    d += 1
                elif toks[j].text == "[":
                    d -= 1
                    if d == 0:
                        break
                j -= 1
            if j - 1 >= lo and toks[j - 1].text == "#":
                i = j - 1
                continue
            break
        break
    return i, first_non_attr
