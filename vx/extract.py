#!/usr/bin/env python3
"""Mechanical extractor: fills a Verus unit template with items copied from /repo's working tree.

Usage: extract.py <template.vrs> <repo_root> <out.rs> <out.meta.json>

Template directives (each on its own line, everything else is copied through unchanged):

  //@@ struct <file> :: <Name>            copy a struct/enum/type item (R2 attrs dropped, R3 pub)
  //@@ fn <file> :: <impl header | -> :: <fn name>
  //@@ ret <name>                         name of the return value in the contract (default r)
  //@@ attr <text>                        attribute line emitted before the function
  //@@ nopub                              do not add `pub` (trait impl members)
  //@@ rename <new name>                  emit under another name (several trait impls of one name)
  //@@ f64 <lvalue>                       R7: `<lvalue> -= e;` / `+= e;` are f64 compound assignments
  //@@ subst <<old>> ==> <<new>>          literal site rewrite, must match exactly once (logged)
  //@@ spec                               following plain lines = requires/ensures, up to next //@@
  //@@ loop <n> [desugar]                 following plain lines = invariant/decreases of loop #n
  //@@ slice <from-anchor> ==> <to-anchor> R10: only statements between two anchors (see RULES.md)
  //@@ end

The rewrite rules R1..R14 are described in vx/RULES.md; every application is logged in the meta
file with the source line.  Any failure to locate or rewrite raises ExtractError -> exit 2.
"""
import json
import re
import sys
import os

sys.path.insert(0, os.path.dirname(os.path.abspath(__file__)))
from rustlex import lex, match_close, norm, find_blocks, item_start, ExtractError, OPEN, CLOSE  # noqa

CANARY = False   # vacuity guard: add `ensures false` to every extracted function (must then FAIL)

TRACING = {"info", "warn", "debug", "error", "trace"}
MUTATING = {"insert", "push", "remove", "set", "clear", "pop", "push_str", "extend", "drain",
            "retain", "take", "replace", "swap", "inc", "append", "reset"}


def line_of(src, off):
    return src.count("\n", 0, off) + 1


class Source:
    cache = {}

    def __init__(self, root, rel):
        self.rel = rel
        path = os.path.join(root, rel)
        try:
            self.src = open(path, encoding="utf-8").read()
        except OSError as e:
            raise ExtractError(f"cannot read {path}: {e}")
        self.toks = lex(self.src)

    @classmethod
    def get(cls, root, rel):
        key = (root, rel)
        if key not in cls.cache:
            cls.cache[key] = Source(root, rel)
        return cls.cache[key]

    def top_range(self):
        return 0, len(self.toks)

    def find_impl(self, header):
        """header like `NodeState` or `Serializable for u16` or `<'a> SortedStaleNodes<'a>`"""
        want = norm(lex(header))
        out = []
        for kw, ob, cb in find_blocks(self.toks, 0, len(self.toks), "impl"):
            got = norm(self.toks[kw + 1:ob])
            if got == want:
                # skip #[cfg(test)] impls
                s, _ = item_start(self.toks, self.src, kw, 0)
                attrs = norm(self.toks[s:kw])
                if "cfg ( test )" in attrs:
                    continue
                out.append((ob, cb))
        if not out:
            raise ExtractError(f"lost anchor: impl `{header}` not found in {self.rel}")
        return out

    def find_fn(self, header, name):
        ranges = [(-1, len(self.toks))] if header == "-" else self.find_impl(header)
        hits = []
        for ob, cb in ranges:
            for kw, b0, b1 in find_blocks(self.toks, ob + 1, cb, "fn"):
                if self.toks[kw + 1].text == name:
                    s, s2 = item_start(self.toks, self.src, kw, ob + 1)
                    attrs = norm(self.toks[s:kw])
                    if "cfg ( test )" in attrs:
                        continue
                    hits.append((s, s2, kw, b0, b1))
        if len(hits) != 1:
            raise ExtractError(
                f"lost anchor: fn `{name}` in impl `{header}` of {self.rel}: {len(hits)} matches")
        return hits[0]

    def find_type_item(self, name):
        hits = []
        for kwd in ("struct", "enum"):
            for kw, b0, b1 in find_blocks(self.toks, 0, len(self.toks), kwd):
                if self.toks[kw + 1].text == name:
                    s, s2 = item_start(self.toks, self.src, kw, 0)
                    hits.append((s, s2, kw, b0, b1))
        if not hits:
            # tuple struct: `struct Name ( ... ) ;`
            for i, t in enumerate(self.toks):
                if t.kind == "ident" and t.text == "struct" and self.toks[i + 1].text == name \
                        and self.toks[i + 2].text == "(":
                    c = match_close(self.toks, i + 2)
                    if self.toks[c + 1].text != ";":
                        continue
                    s, s2 = item_start(self.toks, self.src, i, 0)
                    hits.append((s, s2, i, i + 2, c))
        if len(hits) != 1:
            raise ExtractError(f"lost anchor: type `{name}` in {self.rel}: {len(hits)} matches")
        return hits[0]


class Edits:
    def __init__(self):
        self.e = []

    def add(self, start, end, text, rule, note):
        keep = []
        for (s, t, tx, r, n) in self.e:
            if end <= s or start >= t:
                keep.append((s, t, tx, r, n))
            elif start <= s and t <= end:
                continue            # an elided region swallows the rewrites inside it
            elif s <= start and end <= t:
                return              # already inside an elided region
            else:
                raise ExtractError(f"overlapping rewrites at {start}-{end} ({rule})")
        self.e = keep
        self.e.append((start, end, text, rule, note))

    def apply(self, src, lo, hi):
        out = []
        pos = lo
        for (s, t, text, _, _) in sorted(self.e):
            out.append(src[pos:s])
            out.append(text)
            pos = t
        out.append(src[pos:hi])
        return "".join(out)


def split_top_commas(toks, lo, hi):
    """split toks[lo:hi] at top-level commas; returns list of (a, b) index ranges"""
    parts, depth, a = [], 0, lo
    for i in range(lo, hi):
        t = toks[i]
        if t.kind == "punct":
            if t.text in OPEN:
                depth += 1
            elif t.text in CLOSE:
                depth -= 1
            elif t.text == "," and depth == 0:
                parts.append((a, i))
                a = i + 1
    if a < hi:
        parts.append((a, hi))
    return parts


def text_of(src, toks, a, b):
    if a >= b:
        return ""
    return src[toks[a].start:toks[b - 1].end]


def macro_at(toks, i):
    """if toks[i] starts `[path::]name ! (..)` return (name, open_idx, close_idx, first_idx) """
    j = i
    if toks[j].kind != "ident":
        return None
    name = toks[j].text
    first = j
    if j + 2 < len(toks) and toks[j + 1].text == "::" and toks[j + 2].kind == "ident":
        # anyhow::ensure!
        name = toks[j].text + "::" + toks[j + 2].text
        j += 2
    if j + 2 < len(toks) and toks[j + 1].text == "!" and toks[j + 2].text in OPEN:
        # `!=`is lexed as one token, so `x != (..)` is not confused with a macro call
        return name, j + 2, match_close(toks, j + 2), first
    return None


def rewrite_body(S, b0, b1, opts, log):
    """Token-level rewrites on toks[b0..b1] (the body braces inclusive). Returns new text."""
    src, toks = S.src, S.toks
    ed = Edits()
    loops = []   # (kw index, body open index)
    i = b0
    consumed_until = -1
    while i <= b1:
        t = toks[i]
        if i <= consumed_until:
            i += 1
            continue
        # ---------------- loops (for numbering) -------------------------------------------
        if t.kind == "ident" and t.text in ("for", "while", "loop") and \
                (i == b0 or toks[i - 1].text not in (".", "::")):
            # find body `{` at paren depth 0
            j, d = i + 1, 0
            while j < b1:
                u = toks[j]
                if u.kind == "punct":
                    if u.text in ("(", "["):
                        d += 1
                    elif u.text in (")", "]"):
                        d -= 1
                    elif u.text == "{" and d == 0:
                        break
                j += 1
            if t.text == "for" and toks[i - 1].text == "impl":
                pass
            else:
                loops.append((i, j))
        m = macro_at(toks, i) if t.kind == "ident" else None
        if m and (i == b0 or toks[i - 1].text not in (".",)):
            name, o, c, first = m
            base = name.split("::")[-1]
            ln = line_of(src, t.start)
            end = toks[c].end
            semi = c + 1 <= b1 and toks[c + 1].text == ";"
            if name in TRACING or (name.startswith("tracing::") and base in TRACING):
                # R1
                inner = toks[o + 1:c]
                for k, u in enumerate(inner):
                    if u.kind == "punct" and u.text in ("+=", "-=", "*=", "/=", "|=", "&=", "^="):
                        raise ExtractError(f"R1 refused: compound assignment in log macro at line {ln}")
                    if u.kind == "ident" and u.text in MUTATING and k > 0 and inner[k - 1].text == "." \
                            and k + 1 < len(inner) and inner[k + 1].text == "(":
                        raise ExtractError(f"R1 refused: mutating call `{u.text}` in log macro at line {ln}")
                ed.add(t.start, toks[c + 1].end if semi else end, "", "R1", f"{S.rel}:{ln} {name}!(..) dropped")
                consumed_until = c + 1 if semi else c
                i += 1
                continue
            if base in ("assert", "assert_eq", "assert_ne", "debug_assert") and name == base:
                parts = split_top_commas(toks, o + 1, c)
                if base in ("assert", "debug_assert"):
                    cond = text_of(src, toks, *parts[0])
                elif base == "assert_eq":
                    cond = f"({text_of(src, toks, *parts[0])}) == ({text_of(src, toks, *parts[1])})"
                else:
                    cond = f"({text_of(src, toks, *parts[0])}) != ({text_of(src, toks, *parts[1])})"
                ed.add(t.start, toks[c + 1].end if semi else end,
                       f"if !({cond}) {{ vpanic(); }}", "R5", f"{S.rel}:{ln} {base}! -> vpanic obligation")
                consumed_until = c + 1 if semi else c
                i += 1
                continue
            if base == "ensure" and name in ("ensure", "anyhow::ensure"):
                parts = split_top_commas(toks, o + 1, c)
                cond = text_of(src, toks, *parts[0])
                ed.add(toks[first].start, toks[c + 1].end if semi else end,
                       f"if !({cond}) {{ return Err(anyhow_error()); }}", "R8", f"{S.rel}:{ln} ensure!")
                consumed_until = c + 1 if semi else c
                i += 1
                continue
            if base == "bail" and name in ("bail", "anyhow::bail"):
                ed.add(toks[first].start, toks[c + 1].end if semi else end,
                       "return Err(anyhow_error());" if semi else "return Err(anyhow_error())", "R8", f"{S.rel}:{ln} bail!")
                consumed_until = c + 1 if semi else c
                i += 1
                continue
            if base in ("matches", "vec", "format", "unreachable", "panic", "write", "anyhow"):
                if base == "panic" or base == "unreachable":
                    ed.add(toks[first].start, toks[c + 1].end if semi else end,
                           "{ vpanic(); }" if False else "vpanic_any()", "R5", f"{S.rel}:{ln} {base}!")
                    consumed_until = c
                    i += 1
                    continue
        # ---------------- R8: `.context(..)?` / `.with_context(..)?` ------------------------
        if t.kind == "punct" and t.text == "." and i + 2 <= b1 and toks[i + 1].kind == "ident" \
                and toks[i + 1].text in ("context", "with_context") and toks[i + 2].text == "(":
            c = match_close(toks, i + 2)
            if c + 1 <= b1 and toks[c + 1].text == "?":
                ln = line_of(src, t.start)
                ed.add(t.start, toks[c + 1].end, ".ok_or_anyhow()?", "R8",
                       f"{S.rel}:{ln} .{toks[i + 1].text}(..)? -> .ok_or_anyhow()? (error value abstracted)")
                consumed_until = c + 1
                i += 1
                continue
        # ---------------- R13: std idioms routed through ext:: adapters ---------------------
        if opts.get("r13") and t.kind == "punct" and t.text == "." and i + 2 <= b1 and toks[i + 1].kind == "ident" \
                and toks[i + 1].text in ("extend", "drain") and toks[i + 2].text == "(":
            c = match_close(toks, i + 2)
            a = i - 1
            while a > b0 and toks[a - 1].text not in (";", "{", "}", "=>"):
                a -= 1
            lv = text_of(src, toks, a, i)
            arg = text_of(src, toks, i + 3, c)
            ln = line_of(src, t.start)
            if toks[i + 1].text == "extend" and toks[i + 3].text == "&" and toks[c - 1].text == "]":
                ed.add(toks[a].start, toks[c].end, f"ext::vec_extend_slice(&mut {lv}, {arg})", "R13",
                       f"{S.rel}:{ln} {lv}.extend(&slice) -> ext::vec_extend_slice")
                consumed_until = c
                i += 1
                continue
            if toks[i + 1].text == "drain" and toks[i + 3].text == "..":
                n = text_of(src, toks, i + 4, c)
                ed.add(toks[a].start, toks[c].end, f"ext::vec_drain_prefix(&mut {lv}, {n})", "R13",
                       f"{S.rel}:{ln} {lv}.drain(..n) -> ext::vec_drain_prefix")
                consumed_until = c
                i += 1
                continue
        if opts.get("r13") and t.kind == "punct" and t.text == "&" and i + 1 <= b1 and toks[i + 1].text == "mut":
            # `&mut EXPR[..]`  ->  EXPR.as_mut_slice()
            j = i + 2
            while j <= b1 and (toks[j].kind == "ident" or toks[j].text == "."):
                j += 1
            if j + 2 <= b1 and toks[j].text == "[" and toks[j + 1].text == ".." and toks[j + 2].text == "]":
                ex = text_of(src, toks, i + 2, j)
                ln = line_of(src, t.start)
                ed.add(t.start, toks[j + 2].end, f"{ex}.as_mut_slice()", "R13", f"{S.rel}:{ln} &mut {ex}[..] -> as_mut_slice()")
                consumed_until = j + 2
                i += 1
                continue
        # ---------------- R14: `mut self` receiver -> local rebinding ---------------------------
        if opts.get("r14") and t.kind == "ident" and t.text == "self" and i > b0:
            ed.add(t.start, t.end, "this", "R14", f"{S.rel}:{line_of(src, t.start)} self -> this")
            i += 1
            continue
        # ---------------- R7: `a |= b;` on bool ---------------------------------------------
        if t.kind == "punct" and t.text == "|=":
            # lvalue: tokens back to previous `;` `{` `}`
            a = i - 1
            while a > b0 and toks[a - 1].text not in (";", "{", "}"):
                a -= 1
            z = i + 1
            d = 0
            while z <= b1:
                u = toks[z]
                if u.kind == "punct":
                    if u.text in OPEN:
                        d += 1
                    elif u.text in CLOSE:
                        d -= 1
                    elif u.text == ";" and d == 0:
                        break
                z += 1
            rhs_toks = toks[i + 1:z]
            for k, u in enumerate(rhs_toks):
                if u.text == "(" and k > 0 and rhs_toks[k - 1].kind == "ident":
                    raise ExtractError("R7 refused: call in rhs of |=")
            lv = text_of(src, toks, a, i)
            rhs = text_of(src, toks, i + 1, z)
            ln = line_of(src, t.start)
            ed.add(toks[a].start, toks[z - 1].end, f"{lv} = {lv} || ({rhs})", "R7", f"{S.rel}:{ln} |= on bool")
            consumed_until = z - 1
            i += 1
            continue
        # ---------------- R7b: f64 compound assignment ---------------------------------------
        if t.kind == "punct" and t.text in ("-=", "+=") and opts.get("f64"):
            a = i - 1
            while a > b0 and toks[a - 1].text not in (";", "{", "}"):
                a -= 1
            lv = text_of(src, toks, a, i)
            if lv.replace(" ", "") in [x.replace(" ", "") for x in opts["f64"]]:
                z = i + 1
                while toks[z].text != ";":
                    z += 1
                rhs = text_of(src, toks, i + 1, z)
                ln = line_of(src, t.start)
                fn_ = "ext::f64_sub" if t.text[0] == "-" else "ext::f64_add"
                ed.add(toks[a].start, toks[z - 1].end, f"{lv} = {fn_}({lv}, {rhs})", "R7",
                       f"{S.rel}:{ln} f64 compound assignment -> {fn_} (value uninterpreted)")
                consumed_until = z - 1
                i += 1
                continue
        i += 1

    # ------------- R11: elide the rest of a block from the statement that starts with an anchor ---
    for occ, anchor, repl in opts.get("elide", []):
        atoks = [t.text for t in lex(anchor)]
        hits = [k for k in range(b0, b1 - len(atoks)) if [t.text for t in toks[k:k + len(atoks)]] == atoks]
        if occ < 1 or occ > len(hits):
            raise ExtractError(f"lost anchor: elide_rest #{occ} `{anchor}` ({len(hits)} occurrences)")
        k = hits[occ - 1]
        if toks[k - 1].text not in (";", "{", "}"):
            raise ExtractError(f"elide_rest `{anchor}`: anchor does not start a statement")
        # closing brace of the enclosing block
        d, z = 0, k
        while z <= b1:
            u = toks[z]
            if u.kind == "punct" and u.text in OPEN:
                d += 1
            elif u.kind == "punct" and u.text in CLOSE:
                if d == 0:
                    break
                d -= 1
            z += 1
        ln = line_of(src, toks[k].start)
        n_lines = line_of(src, toks[z].start) - ln
        ed.add(toks[k].start, toks[z].start, repl + "\n", "R11",
               f"{S.rel}:{ln} {n_lines} lines from `{anchor}` to the end of the block replaced by `{repl}` (over-approximation: no claim about this path)")
    # ------------- R11: a block statement (`if .. { .. }`) replaced by a call to a stub ---------
    for anchor, repl in opts.get("elide_block", []):
        atoks = [t.text for t in lex(anchor)]
        hits = [k for k in range(b0, b1 - len(atoks)) if [t.text for t in toks[k:k + len(atoks)]] == atoks]
        if len(hits) != 1:
            raise ExtractError(f"lost anchor: elide_block `{anchor}` matches {len(hits)} times")
        k = hits[0]
        z = k + len(atoks)
        while z <= b1 and toks[z].text != "{":
            z += 1
        c = match_close(toks, z)
        ln = line_of(src, toks[k].start)
        n_lines = line_of(src, toks[c].start) - ln + 1
        ed.add(toks[k].start, toks[c].end, repl, "R11",
               f"{S.rel}:{ln} block statement `{anchor} {{..}}` ({n_lines} lines) replaced by `{repl}` (over-approximation)")
    # ------------- R11: one statement replaced by a call to a contracted stub ------------------
    for anchor, repl, pin in opts.get("replace_stmt", []):
        atoks = [t.text for t in lex(anchor)]
        hits = [k for k in range(b0, b1 - len(atoks)) if [t.text for t in toks[k:k + len(atoks)]] == atoks]
        if len(hits) != 1:
            raise ExtractError(f"lost anchor: replace_stmt `{anchor}` matches {len(hits)} times")
        k = hits[0]
        d, z = 0, k
        while z <= b1:
            u = toks[z]
            if u.kind == "punct" and u.text in OPEN:
                d += 1
            elif u.kind == "punct" and u.text in CLOSE:
                d -= 1
            elif u.kind == "punct" and u.text == ";" and d == 0:
                break
            z += 1
        ln = line_of(src, toks[k].start)
        orig = " ".join(text_of(src, toks, k, z + 1).split())
        # `pin`: the stub's contract was written for exactly this statement; any other text is a lost anchor
        import hashlib
        # brace-delimited blocks (closure bodies, struct literals) are blanked first: the bodies of
        # closures are verified separately as slices, the pin covers the skeleton of the statement
        skel, depth_b = [], 0
        for ch in orig:
            if ch == "{":
                depth_b += 1
                if depth_b == 1:
                    skel.append("{}")
                continue
            if ch == "}":
                depth_b -= 1
                continue
            if depth_b == 0:
                skel.append(ch)
        got = hashlib.sha1("".join(skel).encode("utf-8")).hexdigest()[:8]
        if pin and pin != got:
            raise ExtractError(f"lost anchor: the statement replaced at `{anchor}` changed (pin {pin}, now {got}): `{orig[:200]}`")
        ed.add(toks[k].start, toks[z].end, repl, "R11", f"{S.rel}:{ln} statement `{orig[:160]}` (pin {got}) replaced by `{repl}` (assumed contract)")
    # ------------- R4: contract on a closure (header replaced, body kept verbatim in braces) ---
    for anchor, newhead in opts.get("closures", []):
        atoks = [t.text for t in lex(anchor)]
        hits = [k for k in range(b0, b1 - len(atoks)) if [t.text for t in toks[k:k + len(atoks)]] == atoks]
        if len(hits) != 1:
            raise ExtractError(f"lost anchor: closure header `{anchor}` matches {len(hits)} times")
        k = hits[0]
        body_start = k + len(atoks)
        # the closure body extends to the closing delimiter of the enclosing call
        d, z = 0, body_start
        while z <= b1:
            u = toks[z]
            if u.kind == "punct" and u.text in OPEN:
                d += 1
            elif u.kind == "punct" and u.text in CLOSE:
                if d == 0:
                    break
                d -= 1
            elif u.kind == "punct" and u.text == "," and d == 0:
                break
            z += 1
        body_txt = text_of(src, toks, body_start, z)
        ln = line_of(src, toks[k].start)
        ed.add(toks[k].start, toks[z - 1].end, f"{newhead} {{ {body_txt} }}", "R4", f"{S.rel}:{ln} contract on closure `{anchor}` (body verbatim)")
    # ------------- loop directives: invariants and R6 desugaring -----------------------------
    for n, spec in opts.get("loops", {}).items():
        if n < 1 or n > len(loops):
            raise ExtractError(f"lost anchor: loop #{n} not found (function has {len(loops)} loops)")
        kw, ob = loops[n - 1]
        inv = spec["text"]
        ln = line_of(src, toks[kw].start)
        if spec["desugar"]:
            if toks[kw].text != "for":
                raise ExtractError(f"R6: loop #{n} is not a for loop")
            # for PAT in EXPR {
            j = kw + 1
            d = 0
            while j < ob:
                u = toks[j]
                if u.kind == "punct" and u.text in OPEN:
                    d += 1
                elif u.kind == "punct" and u.text in CLOSE:
                    d -= 1
                elif u.kind == "ident" and u.text == "in" and d == 0:
                    break
                j += 1
            pat = text_of(src, toks, kw + 1, j)
            expr = text_of(src, toks, j + 1, ob)
            it = f"iter__{n}"
            new = (f"let mut {it} = ({expr}).into_iter();\n loop\n{inv}\n {{ "
                   f"let Some({pat}) = {it}.next() else {{ break; }};")
            ed.add(toks[kw].start, toks[ob].end, new, "R6", f"{S.rel}:{ln} for -> loop/next (termination not proved)")
        else:
            ed.add(toks[ob].start, toks[ob].start, f"\n{inv}\n", "R4", f"{S.rel}:{ln} loop invariant inserted")
    for n, ptxt in opts.get("loop_end", {}).items():
        if n < 1 or n > len(loops):
            raise ExtractError(f"lost anchor: loop #{n} not found for loop_end_proof")
        kw, ob = loops[n - 1]
        cb = match_close(toks, ob)
        # a `;` first: the loop body may end in an expression without one (an empty statement is harmless)
        ed.add(toks[cb].start, toks[cb].start, "\n;proof {\n" + ptxt + "}\n", "R4",
               f"{S.rel}:{line_of(src, toks[cb].start)} ghost proof block at the end of loop #{n}")
    text = ed.apply(src, toks[b0].start, toks[b1].end)
    if opts.get("r14"):
        text = "{ let mut this = self;" + text[1:]
    for (s, e, _, rule, note) in sorted(ed.e):
        log.append({"rule": rule, "note": note})
    if opts.get("slice"):
        text = apply_slice(text, opts, log)
    # site substitutions whose pattern may span lines: blanks in the pattern match any run of white
    # space (also none) in the text
    for old, new in opts.get("wsubst", []):
        rx = re.compile(r"\s*".join(re.escape(piece) for piece in old.split()))
        hits = rx.findall(text)
        if len(hits) != 1:
            raise ExtractError(f"lost anchor: wsubst `{old}` matches {len(hits)} times")
        text = rx.sub(lambda _m: new, text, count=1)
        log.append({"rule": "R-site", "note": f"`{old}` (white space insensitive) -> `{new}`"})
    # literal site substitutions
    for old, new in opts.get("subst", []):
        if text.count(old) != 1:
            raise ExtractError(f"lost anchor: subst `{old}` matches {text.count(old)} times")
        text = text.replace(old, new)
        log.append({"rule": "R-site", "note": f"`{old}` -> `{new}`"})
    for old, new in opts.get("subst_all", []):
        n = text.count(old)
        if n < 1:
            raise ExtractError(f"lost anchor: subst_all `{old}` matches 0 times")
        text = text.replace(old, new)
        log.append({"rule": "R-site", "note": f"`{old}` -> `{new}` ({n} sites)"})
    # ghost proof blocks (erased by Verus; never change executable behaviour)
    for pr in opts.get("proofs", []):
        a = pr["anchor"]
        if text.count(a) != 1:
            raise ExtractError(f"lost anchor: proof anchor `{a}` matches {text.count(a)} times")
        k = text.index(a)
        block = "proof {\n" + pr["text"] + "}\n"
        if pr["where"].startswith("ghost_"):
            # ghost declarations (`let ghost x = ..;`): erased by Verus like proof blocks
            for gl in pr["text"].strip().split("\n"):
                if gl.strip() and not re.match(r"^\s*(let ghost |proof\s*\{|\}|//|assert|lemma_|[a-z_]+\s*=[^=])", gl):
                    pass
            block = pr["text"]
        if pr["where"].endswith("_before"):
            text = text[:k] + block + text[k:]
        else:
            # after the end of the statement containing the anchor: next `;` at nesting depth 0
            d, j = 0, k
            while j < len(text):
                c = text[j]
                if c in "([{":
                    d += 1
                elif c in ")]}":
                    d -= 1
                elif c == ";" and d == 0:
                    break
                j += 1
            if j >= len(text):
                raise ExtractError(f"proof_after `{a}`: no statement end found")
            text = text[:j + 1] + "\n" + block + text[j + 1:]
        log.append({"rule": "R4", "note": f"ghost proof block {pr['where']} `{a}`"})
    return text


def emit_fn(root, d, log_all):
    S = Source.get(root, d["file"])
    s, s2, kw, b0, b1 = S.find_fn(d["impl"], d["name"])
    toks, src = S.toks, S.src
    log = []
    # signature: tokens kw .. b0 ; split return type
    sig_toks = toks[kw:b0]
    # find `->` at depth 0
    depth = 0
    arrow = None
    where = None
    for k, t in enumerate(sig_toks):
        if t.kind == "punct" and t.text in ("(", "[", "<"):
            depth += 1
        elif t.kind == "punct" and t.text in (")", "]", ">"):
            depth -= 1
        elif t.kind == "punct" and t.text == ">>":
            depth -= 2          # in a signature `>>` closes two generic argument lists
        elif t.kind == "punct" and t.text == "->" and depth == 0:
            arrow = k
        elif t.kind == "ident" and t.text == "where" and depth == 0:
            where = k
    end_k = where if where is not None else len(sig_toks)
    head_end = arrow if arrow is not None else end_k
    head = src[sig_toks[0].start:sig_toks[head_end - 1].end]
    if d.get("r14"):
        if not re.search(r"\(\s*mut\s+self\b", head):
            raise ExtractError("R14: receiver is not `mut self`")
        head = re.sub(r"\(\s*mut\s+self\b", "(self", head, count=1)
    if d.get("rename"):
        head = re.sub(r"\bfn\s+" + re.escape(d["name"]) + r"\b", "fn " + d["rename"], head, count=1)
    ret = ""
    if arrow is not None:
        rty = src[sig_toks[arrow + 1].start:sig_toks[end_k - 1].end]
        ret = f" -> ({d.get('ret', 'r')}: {rty})"
    wh = ""
    if where is not None:
        wh = "\n    " + src[sig_toks[where].start:sig_toks[-1].end]
    # qualifiers before fn (async/const/unsafe), visibility dropped -> pub
    quals = [t.text for t in toks[s2:kw] if t.kind == "ident" and t.text in ("async", "const", "unsafe")]
    if "async" in quals:
        raise ExtractError("async fn is outside the supported subset")
    vis = "" if d.get("nopub") else "pub "
    body = rewrite_body(S, b0, b1, d, log)
    attrs = "".join(a + "\n" for a in d.get("attrs", []))
    spec = d.get("spec", "")
    for old, new in d.get("hsubst", []):
        full = head + ret
        if full.count(old) != 1:
            raise ExtractError(f"lost anchor: hsubst `{old}` matches {full.count(old)} times in signature")
        if old in ret:
            ret = ret.replace(old, new)
        else:
            head = head.replace(old, new)
        log.append({"rule": "R-site", "note": f"signature: `{old}` -> `{new}`"})
    if d.get("plain"):
        # Kani route: the signature is kept exactly as written (no named return, no `pub`)
        ret = ""
        if arrow is not None:
            ret = " -> " + src[sig_toks[arrow + 1].start:sig_toks[end_k - 1].end]
        vis = ""
    if d.get("sig"):
        # R10: a slice of a function gets the signature written in the template
        head, ret, wh = d["sig"], "", ""
        log.append({"rule": "R10", "note": "signature of the slice supplied by the template: " + d["sig"]})
    out = f"{attrs}{vis}{head}{ret}{wh}\n{spec}\n{body}\n"
    if CANARY:
        # in the vacuity run the original function is not re-verified (the main run does that): its
        # contract is kept for its callers, its body is skipped
        out = "#[verifier::external_body]\n" + out
    if CANARY and not d.get("nopub"):
        # vacuity guard: a renamed copy with `false` among its ensures; callees keep their real
        # contracts, so the copy must FAIL unless the precondition is contradictory
        cname = d.get("rename", d["name"]) + "__canary"
        chead = re.sub(r"\bfn\s+(\w+)", lambda m: "fn " + m.group(1) + "__canary", head, count=1)
        out += f"{attrs}{vis}{chead}{ret}{wh}\n{add_false_ensures(spec)}\n{body}\n"
    meta = {
        "id": d["emit_id"] if d.get("emit_id") else (d["impl"] + "::" if d["impl"] != "-" else "") + d.get("rename", d["name"]),
        "file": d["file"],
        "src_lines": [line_of(src, toks[kw].start), line_of(src, toks[b1].end)],
        "rewrites": log,
        "clauses": count_clauses(spec) + sum(count_clauses(v["text"]) for v in d.get("loops", {}).values()),
    }
    if toks[s:s2]:
        meta["dropped_attrs"] = norm(toks[s:s2])
    return out, meta


def apply_slice(body, d, log):
    a, b = d["slice"]
    if b == "END":
        if body.count(a) != 1:
            raise ExtractError(f"lost anchor: slice anchor matches {body.count(a)} times")
        i = body.index(a)
        j = body.rindex("}")
        seg = body[i:j]
        log.append({"rule": "R10", "note": f"slice from `{a}` to the end of the function body ({seg.count(chr(10))} lines)"})
        return "{\n" + seg + d.get("slice_tail", "") + "\n}"
    if b.startswith("NEXT:"):
        # end anchor = first occurrence after the (unique) start anchor
        b = b[5:]
        if body.count(a) != 1 or b not in body[body.index(a):]:
            raise ExtractError(f"lost anchor: slice anchors match {body.count(a)}/0 times")
        i = body.index(a)
        j = body.index(b, i)
        seg = body[i:j]
        log.append({"rule": "R10", "note": f"slice between `{a}` and the next `{b}` ({seg.count(chr(10))} lines)"})
        return "{\n" + seg + d.get("slice_tail", "") + "\n}"
    if body.count(a) != 1 or body.count(b) != 1:
        raise ExtractError(f"lost anchor: slice anchors match {body.count(a)}/{body.count(b)} times")
    i = body.index(a)
    j = body.index(b)
    if j < i:
        raise ExtractError("slice anchors out of order")
    seg = body[i:j]
    log.append({"rule": "R10", "note": f"slice between `{a}` and `{b}` ({seg.count(chr(10))} lines)"})
    return "{\n" + seg + d.get("slice_tail", "") + "\n}"


def add_false_ensures(spec):
    """vacuity canary: the function must no longer verify once `false` is among its ensures"""
    toks = lex(spec)
    has_ens = any(t.kind == "ident" and t.text == "ensures" for t in toks)
    dec = [t for t in toks if t.kind == "ident" and t.text == "decreases"]
    cut = dec[0].start if dec else len(spec)
    head, tail = spec[:cut].rstrip(), spec[cut:]
    if has_ens:
        if not head.endswith(","):
            head += ","
        head += "\n        false,\n"
    else:
        if head and not head.endswith(","):
            head += ","
        head += "\n        ensures false,\n"
    return head + tail


def count_clauses(text):
    """number of top-level comma separated clauses after requires/ensures/invariant/decreases"""
    n = 0
    toks = lex(text)
    depth = 0
    in_clause = False
    for k, t in enumerate(toks):
        if t.kind == "ident" and t.text in ("requires", "ensures", "invariant", "decreases", "invariant_except_break", "recommends") and depth == 0:
            if in_clause:
                pass
            in_clause = True
            n += 1
            continue
        if t.kind == "punct" and t.text in OPEN:
            depth += 1
        elif t.kind == "punct" and t.text in CLOSE:
            depth -= 1
        elif t.kind == "punct" and t.text == "," and depth == 0:
            # trailing comma before a keyword / end does not start a clause
            nxt = toks[k + 1] if k + 1 < len(toks) else None
            if nxt is not None and not (nxt.kind == "ident" and nxt.text in ("requires", "ensures", "invariant", "decreases", "recommends")):
                n += 1
    return n


def emit_type(root, d):
    S = Source.get(root, d["file"])
    s, s2, kw, b0, b1 = S.find_type_item(d["name"])
    toks, src = S.toks, S.src
    kept_attrs = []
    # keep #[repr(..)] and derive(Clone, Copy, PartialEq, Eq) subsets that Verus understands
    attrs_txt = src[toks[s].start:toks[s2].start] if s < s2 else ""
    for m in re.finditer(r"#\[repr\([^\]]*\)\]", attrs_txt):
        kept_attrs.append(m.group(0))
    dm = re.search(r"#\[derive\(([^\]]*)\)\]", attrs_txt, re.S)
    if dm:
        keep = [x.strip() for x in dm.group(1).split(",") if x.strip() in ("Clone", "Copy", "PartialEq", "Eq", "Debug")]
        drop = [x.strip() for x in dm.group(1).split(",") if x.strip() and x.strip() not in keep]
        if d.get("derive") is not None:
            keep = d["derive"]
        if keep:
            kept_attrs.append("#[derive(" + ", ".join(keep) + ")]")
    head = src[toks[kw].start:toks[b0].start]
    # body: drop field attributes and make fields pub (struct only)
    body_toks = toks[b0:b1 + 1]
    out = []
    is_struct = toks[kw].text == "struct"
    depth = 0
    i = b0
    pos = toks[b0].start
    pieces = []
    expect_field = True
    while i <= b1:
        t = toks[i]
        if t.kind == "punct" and t.text in OPEN:
            depth += 1
        elif t.kind == "punct" and t.text in CLOSE:
            depth -= 1
        if depth == 1 and t.text == "#" and toks[i + 1].text == "[":
            c = match_close(toks, i + 1)
            if toks[i + 2].text == "cfg":
                i = c + 1      # conditional compilation of a field / variant is kept
                continue
            pieces.append(src[pos:t.start])
            pos = toks[c].end
            i = c + 1
            continue
        if depth == 1 and is_struct and t.kind == "ident" and toks[i + 1].text == ":" and toks[i - 1].text in ("{", ",", "]"):
            # field without visibility (prev is `{`/`,` or attribute end)
            pieces.append(src[pos:t.start])
            pieces.append("pub ")
            pos = t.start
        if depth == 1 and is_struct and t.kind == "ident" and t.text == "pub" and toks[i + 1].text == "(":
            c = match_close(toks, i + 1)
            pieces.append(src[pos:t.start])
            pieces.append("pub")
            pos = toks[c].end
            i = c + 1
            continue
        i += 1
    pieces.append(src[pos:toks[b1].end])
    body = "".join(pieces)
    if toks[b0].text == "(":
        # tuple struct: make every field pub, terminate with `;`
        fields = [text_of(src, toks, a, b) for a, b in split_top_commas(toks, b0 + 1, b1)]
        fields = ["pub " + re.sub(r"^pub(\s*\([^)]*\))?\s*", "", f.strip()) for f in fields]
        body = "(" + ", ".join(fields) + ");"
    # strip doc comments / line comments inside type bodies
    body = re.sub(r"^\s*//.*$", "", body, flags=re.M)
    body = re.sub(r"\n\s*\n+", "\n", body)
    rewrites = [{"rule": "R2/R3", "note": "attributes and docs dropped, fields made pub"}]
    # R9: a field type that is opaque here is spelled as the prelude's external_body type
    for a, b in d.get("retype", []):
        if body.count(a) != 1:
            raise ExtractError(f"lost anchor: retype `{a}` matches {body.count(a)} times in type {d['name']}")
        body = body.replace(a, b)
        rewrites.append({"rule": "R9", "note": f"field type `{a}` -> opaque `{b}`"})
    text = "".join(a + "\n" for a in kept_attrs) + "pub " + head + body + "\n"
    meta = {"id": d["name"], "file": d["file"],
            "src_lines": [line_of(src, toks[kw].start), line_of(src, toks[b1].end)],
            "rewrites": rewrites}
    return text, meta


def read_with_includes(path, depth=0):
    """`//@@ include <template> until <<marker>>` splices another template's text (up to the line
    that equals the marker) - U5 re-verifies U1's items and builds on their contracts"""
    if depth > 3:
        raise ExtractError("include depth")
    out = []
    for ln in open(path, encoding="utf-8").read().split("\n"):
        m = re.match(r"\s*//@@ include (\S+)(?: until <<(.*)>>)?\s*$", ln)
        if not m:
            out.append(ln)
            continue
        inc = os.path.join(os.path.dirname(path), m.group(1))
        for l2 in read_with_includes(inc, depth + 1):
            if m.group(2) is not None and l2.strip() == m.group(2).strip():
                break
            out.append(l2)
    return out


def parse_template(path):
    lines = read_with_includes(path)
    # only one module-level `broadcast use` is allowed: including templates extend the base one
    extra = [re.match(r"\s*//@@ broadcast_extra (\S+)", l).group(1) for l in lines if re.match(r"\s*//@@ broadcast_extra ", l)]
    lines = [l.replace("/*@@EXTRA_BROADCAST@@*/", "".join(", " + e for e in extra)) for l in lines if not re.match(r"\s*//@@ broadcast_extra ", l)]
    out = []   # list of ("text", str) | ("fn", dict) | ("type", dict)
    i = 0
    cur = None
    mode = None
    while i < len(lines):
        ln = lines[i]
        st = ln.strip()
        if st.startswith("//@@"):
            cmd = st[4:].strip()
            if cmd.startswith("fn "):
                parts = [p.strip() for p in cmd[3:].split(" :: ")]
                if len(parts) != 3:
                    raise ExtractError(f"{path}:{i+1}: bad fn directive")
                cur = {"kind": "fn", "file": parts[0], "impl": parts[1], "name": parts[2], "attrs": [],
                       "loops": {}, "subst": [], "f64": [], "spec": "", "tline": i + 1}
                mode = None
            elif cmd.startswith("const "):
                parts = [p.strip() for p in cmd[6:].split(" :: ")]
                out.append(("const", {"kind": "const", "file": parts[0], "name": parts[1]}))
            elif cmd.startswith("struct ") or cmd.startswith("enum ") or cmd.startswith("type "):
                parts = [p.strip() for p in cmd.split(" ", 1)[1].split(" :: ")]
                dd = {"kind": "type", "file": parts[0], "name": parts[1]}
                for extra in parts[2:]:
                    if extra.startswith("derive="):
                        dd["derive"] = [x for x in extra[7:].split(",") if x]
                    elif extra.startswith("retype "):
                        m = re.match(r"retype\s+<<(.*?)>>\s*==>\s*<<(.*)>>\s*$", extra)
                        if not m:
                            raise ExtractError(f"{path}:{i+1}: bad retype")
                        dd.setdefault("retype", []).append((m.group(1), m.group(2)))
                out.append(("type", dd))
            elif cur is None:
                raise ExtractError(f"{path}:{i+1}: directive outside fn block: {cmd}")
            elif cmd.startswith("sig "):
                cur["sig"] = cmd[4:].strip()
            elif cmd.startswith("ret "):
                cur["ret"] = cmd[4:].strip()
            elif cmd.startswith("attr "):
                cur["attrs"].append(cmd[5:].strip())
            elif cmd.startswith("id "):
                cur["emit_id"] = cmd[3:].strip()
            elif cmd == "plain":
                cur["plain"] = True
            elif cmd in ("r13", "r14"):
                cur[cmd] = True
            elif cmd == "nopub":
                cur["nopub"] = True
            elif cmd.startswith("rename "):
                cur["rename"] = cmd[7:].strip()
            elif cmd.startswith("f64 "):
                cur["f64"].append(cmd[4:].strip())
            elif cmd.startswith("elide_rest "):
                m = re.match(r"elide_rest\s+(\d+)\s+<<(.*?)>>\s*==>\s*<<(.*)>>\s*$", cmd)
                if not m:
                    raise ExtractError(f"{path}:{i+1}: bad elide_rest")
                cur.setdefault("elide", []).append((int(m.group(1)), m.group(2), m.group(3)))
            elif cmd.startswith("elide_block "):
                m = re.match(r"elide_block\s+<<(.*?)>>\s*==>\s*<<(.*)>>\s*$", cmd)
                if not m:
                    raise ExtractError(f"{path}:{i+1}: bad elide_block")
                cur.setdefault("elide_block", []).append((m.group(1), m.group(2)))
            elif cmd.startswith("replace_stmt "):
                m = re.match(r"replace_stmt\s+<<(.*?)>>\s*==>\s*<<(.*?)>>\s*(?:pin\s+([0-9a-f]{8}))?\s*$", cmd)
                if not m:
                    raise ExtractError(f"{path}:{i+1}: bad replace_stmt")
                cur.setdefault("replace_stmt", []).append((m.group(1), m.group(2), m.group(3)))
            elif cmd.startswith("closure_spec "):
                m = re.match(r"closure_spec\s+<<(.*?)>>\s*==>\s*<<(.*)>>\s*$", cmd)
                if not m:
                    raise ExtractError(f"{path}:{i+1}: bad closure_spec")
                cur.setdefault("closures", []).append((m.group(1), m.group(2)))
            elif cmd.startswith("hsubst "):
                m = re.match(r"hsubst\s+<<(.*?)>>\s*==>\s*<<(.*)>>\s*$", cmd)
                if not m:
                    raise ExtractError(f"{path}:{i+1}: bad hsubst")
                cur.setdefault("hsubst", []).append((m.group(1), m.group(2)))
            elif cmd.startswith("subst_all "):
                m = re.match(r"subst_all\s+<<(.*?)>>\s*==>\s*<<(.*)>>\s*$", cmd)
                if not m:
                    raise ExtractError(f"{path}:{i+1}: bad subst_all")
                cur.setdefault("subst_all", []).append((m.group(1), m.group(2)))
            elif cmd.startswith("wsubst "):
                m = re.match(r"wsubst\s+<<(.*?)>>\s*==>\s*<<(.*)>>\s*$", cmd)
                if not m:
                    raise ExtractError(f"{path}:{i+1}: bad wsubst")
                cur.setdefault("wsubst", []).append((m.group(1), m.group(2)))
            elif cmd.startswith("subst "):
                m = re.match(r"subst\s+<<(.*?)>>\s*==>\s*<<(.*)>>\s*$", cmd)
                if not m:
                    raise ExtractError(f"{path}:{i+1}: bad subst")
                cur["subst"].append((m.group(1), m.group(2)))
            elif cmd.startswith("slice "):
                m = re.match(r"slice\s+<<(.*?)>>\s*==>\s*<<(.*?)>>\s*(?:tail\s+<<(.*)>>)?\s*$", cmd)
                if not m:
                    raise ExtractError(f"{path}:{i+1}: bad slice")
                cur["slice"] = (m.group(1), m.group(2))
                cur["slice_tail"] = m.group(3) or ""
            elif cmd.startswith("proof_after ") or cmd.startswith("proof_before ") or cmd.startswith("ghost_after ") or cmd.startswith("ghost_before "):
                m = re.match(r"(proof_after|proof_before|ghost_after|ghost_before)\s+<<(.*)>>\s*$", cmd)
                if not m:
                    raise ExtractError(f"{path}:{i+1}: bad {cmd.split()[0]}")
                cur.setdefault("proofs", []).append({"where": m.group(1), "anchor": m.group(2), "text": ""})
                mode = ("proof", len(cur["proofs"]) - 1)
            elif cmd == "spec":
                mode = "spec"
            elif cmd.startswith("loop_end_proof "):
                n = int(cmd.split()[1])
                cur.setdefault("loop_end", {})[n] = ""
                mode = ("loop_end", n)
            elif cmd.startswith("loop "):
                ps = cmd.split()
                n = int(ps[1])
                cur["loops"][n] = {"text": "", "desugar": "desugar" in ps[2:]}
                mode = ("loop", n)
            elif cmd == "end":
                out.append(("fn", cur))
                cur = None
                mode = None
            else:
                raise ExtractError(f"{path}:{i+1}: unknown directive {cmd}")
        else:
            if cur is None:
                out.append(("text", ln))
            elif mode == "spec":
                cur["spec"] += ln + "\n"
            elif isinstance(mode, tuple) and mode[0] == "loop_end":
                cur["loop_end"][mode[1]] += ln + "\n"
            elif isinstance(mode, tuple) and mode[0] == "proof":
                cur["proofs"][mode[1]]["text"] += ln + "\n"
            elif isinstance(mode, tuple):
                cur["loops"][mode[1]]["text"] += ln + "\n"
            elif st:
                raise ExtractError(f"{path}:{i+1}: stray text inside fn block")
        i += 1
    if cur is not None:
        raise ExtractError(f"{path}: unterminated fn block")
    return out


def run(template, root, out_path, meta_path):
    items = parse_template(template)
    out_lines = []
    metas = []
    for kind, v in items:
        if kind == "text":
            out_lines.append(v)
            continue
        if kind == "const":
            S = Source.get(root, v["file"])
            m = re.search(r"^[ \t]*(?:pub(?:\([a-z]+\))?\s+)?const\s+" + re.escape(v["name"]) + r"\s*:[^;]*;", S.src, re.M)
            if not m:
                raise ExtractError(f"lost anchor: const {v['name']} in {v['file']}")
            ctext = re.sub(r"^[ \t]*(?:pub(?:\([a-z]+\))?\s+)?const", "pub const", m.group(0))
            start = len(out_lines) + 1
            out_lines.extend(ctext.split("\n"))
            metas.append({"id": v["name"], "file": v["file"], "kind": "const", "src_lines": [line_of(S.src, m.start())] * 2,
                          "out_lines": [start, len(out_lines)], "rewrites": []})
            continue
        if kind == "fn":
            v["spec"] = v["spec"].rstrip("\n")
            for n in v["loops"]:
                v["loops"][n]["text"] = v["loops"][n]["text"].rstrip("\n")
            text, meta = emit_fn(root, v, metas)
        else:
            text, meta = emit_type(root, v)
        start = len(out_lines) + 1
        chunk = text.rstrip("\n").split("\n")
        out_lines.extend(chunk)
        meta["out_lines"] = [start, len(out_lines)]
        meta["kind"] = kind
        metas.append(meta)
    with open(out_path, "w", encoding="utf-8") as f:
        f.write("\n".join(out_lines) + "\n")
    with open(meta_path, "w", encoding="utf-8") as f:
        json.dump({"template": template, "items": metas}, f, indent=1)
    return metas


if __name__ == "__main__":
    try:
        run(*sys.argv[1:5])
    except ExtractError as e:
        print(f"EXTRACT-ERROR: {e}", file=sys.stderr)
        sys.exit(2)
