// Native bounded stand-ins for failure_detector.rs (child module; private fields visible).
// Covers what U4 assumes or cannot say: get_or_create_sampling_window (Entry API),
// scheduled_for_deletion_nodes (iterator + Duration::div_f32), and the floating-point clauses of
// C10 / C11 on concrete histories (bounded, never counted as proved).
#![allow(dead_code, unused_imports)]
use std::collections::{BTreeMap, BTreeSet};
use std::time::Duration;

use tokio::time::Instant;

use super::*;
use crate::ChitchatId;

#[path = "/verif/native/common.rs"]
mod common;
use common::*;

#[derive(Clone, Copy, Debug, PartialEq)]
enum Ev {
    Report(u8),
    Advance(u8),
    Update(u8),
    Gc,
}
const STEPS_MS: [u64; 6] = [1_000, 9_999, 10_001, 49_999, 50_001, 100_000];
const GRACE_MS: u64 = 100_000;
const MAX_INTERVAL_MS: u64 = 10_000;
static INITIAL_MS_CFG: std::sync::atomic::AtomicU64 = std::sync::atomic::AtomicU64::new(5_000);
#[allow(non_snake_case)]
fn INITIAL_MS_() -> u64 {
    INITIAL_MS_CFG.load(std::sync::atomic::Ordering::Relaxed)
}
const PHI: f64 = 8.0;
const WINDOW: usize = 3;

#[derive(Clone, Debug, Default)]
struct MWin {
    values: Vec<f64>,
    index: usize,
    filled: bool,
    sum: f64,
    last_hb_ms: Option<u64>,
    fresh_reports: u32,
}
impl MWin {
    fn len(&self) -> usize {
        if self.filled { WINDOW } else { self.index }
    }
    fn report(&mut self, now_ms: u64) {
        if self.values.is_empty() {
            self.values = vec![0.0; WINDOW];
        }
        if let Some(last) = self.last_hb_ms {
            let dt = now_ms - last;
            if dt <= MAX_INTERVAL_MS {
                let v = Duration::from_millis(dt).as_secs_f64();
                if self.filled {
                    self.sum -= self.values[self.index];
                }
                self.values[self.index] = v;
                self.sum += v;
                if self.index == WINDOW - 1 {
                    self.filled = true;
                    self.index = 0;
                } else {
                    self.index += 1;
                }
            }
        }
        self.last_hb_ms = Some(now_ms);
        self.fresh_reports += 1;
    }
    fn phi(&self, now_ms: u64) -> Option<f64> {
        let n = self.len();
        if n == 0 {
            return None;
        }
        let last = self.last_hb_ms?;
        let mean = (self.sum + 5.0 * Duration::from_millis(INITIAL_MS_()).as_secs_f64()) / (n as f64 + 5.0);
        Some(Duration::from_millis(now_ms - last).as_secs_f64() / mean)
    }
    fn reset(&mut self) {
        self.index = 0;
        self.filled = false;
        self.sum = 0.0;
    }
}
#[derive(Clone, Debug, Default)]
struct MFd {
    win: BTreeMap<u8, MWin>,
    live: BTreeSet<u8>,
    dead: BTreeMap<u8, u64>,
    now_ms: u64,
}

fn nid(i: u8) -> ChitchatId {
    ChitchatId::for_local_test(30_000 + i as u16)
}

async fn run_history(evs: &[Ev], r: &mut Report) {
    let case = format!("{:?}", evs);
    if let Some(rc) = replay_case() {
        if rc != case {
            return;
        }
    }
    r.evaluations += 1;
    let cfg = FailureDetectorConfig::new(PHI, WINDOW, Duration::from_millis(MAX_INTERVAL_MS), Duration::from_millis(INITIAL_MS_()), Duration::from_millis(GRACE_MS));
    let mut fd = FailureDetector::new(cfg);
    let mut m = MFd::default();
    let mut interesting = false;
    for (i, ev) in evs.iter().enumerate() {
        match *ev {
            Ev::Report(n) => {
                fd.report_heartbeat(&nid(n));
                let now = m.now_ms;
                m.win.entry(n).or_default().report(now);
            }
            Ev::Advance(s) => {
                tokio::time::advance(Duration::from_millis(STEPS_MS[s as usize])).await;
                m.now_ms += STEPS_MS[s as usize];
            }
            Ev::Update(n) => {
                fd.update_node_liveness(&nid(n));
                let phi = m.win.get(&n).and_then(|w| w.phi(m.now_ms));
                let alive = phi.map(|p| p <= PHI).unwrap_or(false);
                if alive {
                    m.live.insert(n);
                    m.dead.remove(&n);
                    interesting = true;
                } else {
                    m.live.remove(&n);
                    let now = m.now_ms;
                    m.dead.entry(n).or_insert(now);
                    if let Some(w) = m.win.get_mut(&n) {
                        w.reset();
                    }
                }
                // C10: silent for longer than phi x max(max_interval, initial_interval) => dead
                if let Some(w) = m.win.get(&n) {
                    if let Some(last) = w.last_hb_ms {
                        if (m.now_ms - last) as f64 / 1000.0 > PHI * (MAX_INTERVAL_MS.max(INITIAL_MS_()) as f64 / 1000.0) && fd.live_nodes().any(|x| *x == nid(n)) {
                            r.fail("c10-not-dead", format!("member {n} silent for {} ms is still live after evaluation", m.now_ms - last), case.clone());
                        }
                    }
                }
                // C11: live requires two fresh reports
                if fd.live_nodes().any(|x| *x == nid(n)) && m.win.get(&n).map(|w| w.fresh_reports).unwrap_or(0) < 2 {
                    r.fail("c11-live-without-evidence", format!("member {n} live with fewer than two reported heartbeats"), case.clone());
                }
            }
            Ev::Gc => {
                let mut got: Vec<ChitchatId> = fd.garbage_collect();
                got.sort();
                let now = m.now_ms;
                let mut want_ids: Vec<u8> = m.dead.iter().filter(|(_, t)| now >= **t + GRACE_MS).map(|(n, _)| *n).collect();
                for n in &want_ids {
                    m.dead.remove(n);
                    m.win.remove(n);
                }
                want_ids.sort();
                let mut want: Vec<ChitchatId> = want_ids.iter().map(|n| nid(*n)).collect();
                want.sort();
                if got != want {
                    r.fail("gc-set", format!("garbage_collect returned {:?}, model {:?} (after event #{i})", got, want), case.clone());
                    return;
                }
                if !want.is_empty() {
                    interesting = true;
                }
            }
        }
        // compare classification and the scheduled-for-deletion view after every event
        let live: BTreeSet<ChitchatId> = fd.live_nodes().cloned().collect();
        let dead: BTreeSet<ChitchatId> = fd.dead_nodes().cloned().collect();
        let mlive: BTreeSet<ChitchatId> = m.live.iter().map(|n| nid(*n)).collect();
        let mdead: BTreeSet<ChitchatId> = m.dead.keys().map(|n| nid(*n)).collect();
        if live != mlive || dead != mdead {
            r.fail("classification", format!("after event #{i} {:?}: live {:?} dead {:?}, model live {:?} dead {:?}", ev, live, dead, mlive, mdead), case.clone());
            return;
        }
        if live.intersection(&dead).next().is_some() {
            r.fail("live-dead-overlap", format!("after event #{i}: a member is live and dead"), case.clone());
        }
        let sched: BTreeSet<ChitchatId> = fd.scheduled_for_deletion_nodes().cloned().collect();
        let msched: BTreeSet<ChitchatId> = m.dead.iter().filter(|(_, t)| **t + GRACE_MS / 2 < m.now_ms).map(|(n, _)| nid(*n)).collect();
        if sched != msched {
            r.fail("scheduled-for-deletion", format!("after event #{i} {:?}: scheduled {:?}, model (dead for > grace/2) {:?}", ev, sched, msched), case.clone());
            return;
        }
        // window bookkeeping (A: get_or_create_sampling_window)
        for (n, w) in &m.win {
            match fd.node_samples.get(&nid(*n)) {
                None => {
                    r.fail("window-missing", format!("no sampling window for member {n} after event #{i}"), case.clone());
                    return;
                }
                Some(real) => {
                    let (rs, ms) = (real.intervals.sum(), w.sum);
                    if (rs - ms).abs() > 1e-9 * (1.0 + ms.abs()) {
                        r.fail("window-sum", format!("member {n}: window sum {rs} vs reference {ms} after event #{i} {:?}", ev), case.clone());
                        return;
                    }
                    if real.intervals.len() != w.len() || real.last_heartbeat.is_some() != w.last_hb_ms.is_some() {
                        r.fail("window-state", format!("member {n}: window len {} last_heartbeat {:?}, model len {} last {:?}", real.intervals.len(), real.last_heartbeat.is_some(), w.len(), w.last_hb_ms), case.clone());
                        return;
                    }
                }
            }
        }
    }
    if interesting {
        r.nontrivial += 1;
    }
}

fn ev_alphabet() -> Vec<Ev> {
    let mut v = vec![Ev::Report(0), Ev::Report(1), Ev::Update(0), Ev::Update(1), Ev::Gc];
    for s in 0..STEPS_MS.len() as u8 {
        v.push(Ev::Advance(s));
    }
    v
}

#[tokio::test(start_paused = true)]
async fn verif_fd_model() {
    let exh = if tier_thorough() { 6 } else { 5 };
    let nrand = if tier_thorough() { 20_000 } else { 2_000 };
    let mut r = Report::new(
        "fd_model",
        &format!("all event histories up to length {exh} over report/update for 2 members, node GC, clock steps {:?} ms (grace 100 s, max_interval 10 s, initial 5 s, phi 8, window 3) + {nrand} seeded histories of length 30; after every event live/dead sets, scheduled-for-deletion set, GC result and window bookkeeping are compared with a reference detector; C10 deadline and C11 two-reports clauses asserted at every evaluation", STEPS_MS),
        true,
    );
    let alpha = ev_alphabet();
    let mut idx: Vec<usize> = Vec::new();
    loop {
        let seq: Vec<Ev> = idx.iter().map(|i| alpha[*i]).collect();
        if !seq.is_empty() {
            run_history(&seq, &mut r).await;
            if r.samples.is_empty() && seq.len() == exh {
                r.sample(format!("{:?}", seq));
            }
        }
        if idx.len() < exh {
            idx.push(0);
            continue;
        }
        let mut done = true;
        while let Some(last) = idx.pop() {
            if last + 1 < alpha.len() {
                idx.push(last + 1);
                done = false;
                break;
            }
        }
        if done {
            break;
        }
    }
    // the structured family and the seeded histories are run under two configurations: the default
    // (initial 5 s) and one whose initial interval is above max_interval / 2 (8 s)
    for cfg_initial in [5_000u64, 8_000] {
    INITIAL_MS_CFG.store(cfg_initial, std::sync::atomic::Ordering::Relaxed);
    // slow-but-valid / too-slow arrivals: intervals of 9.999 s (kept) and 10.001 s (dropped)
    for pattern in 0..4u8 {
        let mut seq = vec![Ev::Report(0)];
        for i in 0..8u8 {
            seq.push(Ev::Advance(if (pattern >> (i % 2)) & 1 == 1 { 2 } else { 1 }));
            seq.push(Ev::Report(0));
            seq.push(Ev::Update(0));
        }
        for _ in 0..10 {
            seq.push(Ev::Advance(1));
            seq.push(Ev::Update(0));
        }
        run_history(&seq, &mut r).await;
    }
    // structured family: n steady intervals (possibly wrapping the window), death by silence,
    // revival with k fresh heartbeats, then evaluations through a long silence
    for n_pre in 1..=(2 * WINDOW as u8 + 2) {
        for step in [0u8, 1] {
            for k_rev in 2..=4u8 {
                let mut seq = vec![Ev::Report(0)];
                for _ in 0..n_pre {
                    seq.push(Ev::Advance(step));
                    seq.push(Ev::Report(0));
                    seq.push(Ev::Update(0));
                }
                seq.push(Ev::Advance(5));
                seq.push(Ev::Update(0)); // dead
                for _ in 0..k_rev {
                    seq.push(Ev::Report(0));
                    seq.push(Ev::Advance(0));
                    seq.push(Ev::Update(0));
                }
                for _ in 0..12 {
                    seq.push(Ev::Advance(1));
                    seq.push(Ev::Update(0));
                }
                run_history(&seq, &mut r).await;
            }
        }
    }
    let mut rng = Rng64(seed() ^ 0xFD);
    for _ in 0..nrand {
        let seq: Vec<Ev> = (0..30).map(|_| alpha[rng.below(alpha.len() as u64) as usize]).collect();
        run_history(&seq, &mut r).await;
    }
    }
    INITIAL_MS_CFG.store(5_000, std::sync::atomic::Ordering::Relaxed);
    r.emit();
}

// C11 (bounded): steady fresh heartbeats with intervals in [a, b], b <= max_interval, stay live at
// every evaluation whenever phi_threshold >= b / min(a, initial_interval).
#[tokio::test(start_paused = true)]
async fn verif_c11_steady() {
    let mut r = Report::new(
        "c11_steady",
        "interval bounds (a,b) ms in {(100,100),(100,800),(500,5000),(1000,10000),(4000,8000),(10000,10000)} with b <= max_interval 10 s, initial 5 s, phi_threshold = b/min(a,initial) rounded up and that + 0.5; window sizes {1,3,1000}; 400 arrivals drawn from [a,b] by a seeded generator (extremes included); evaluation after every arrival and just before the next one",
        false,
    );
    let mut rng = Rng64(seed() ^ 0xC11);
    for (a, b) in [(100u64, 100u64), (100, 800), (500, 5000), (1000, 10_000), (4000, 8000), (10_000, 10_000)] {
        for win in [1usize, 3, 1000] {
            let need = b as f64 / (a.min(INITIAL_MS_()) as f64);
            for thr in [need, need + 0.5] {
                let case = format!("a={a} b={b} window={win} phi_threshold={thr}");
                if let Some(rc) = replay_case() {
                    if rc != case {
                        continue;
                    }
                }
                let cfg = FailureDetectorConfig::new(thr, win, Duration::from_millis(MAX_INTERVAL_MS), Duration::from_millis(INITIAL_MS_()), Duration::from_millis(GRACE_MS));
                let mut fd = FailureDetector::new(cfg);
                let id = nid(0);
                fd.report_heartbeat(&id);
                let mut seen_live = false;
                for k in 0..400u32 {
                    let dt = match k % 5 {
                        0 => a,
                        1 => b,
                        _ => a + rng.below(b - a + 1),
                    };
                    // evaluate just before the next arrival
                    tokio::time::advance(Duration::from_millis(dt)).await;
                    r.evaluations += 1;
                    if k >= 1 {
                        fd.update_node_liveness(&id);
                        if !fd.live_nodes().any(|x| *x == id) {
                            r.fail("steady-flagged-dead", format!("member flagged dead {dt} ms after its last fresh heartbeat (arrival #{k})"), case.clone());
                            break;
                        }
                    }
                    fd.report_heartbeat(&id);
                    fd.update_node_liveness(&id);
                    if fd.live_nodes().any(|x| *x == id) {
                        seen_live = true;
                        r.nontrivial += 1;
                    } else if k >= 1 {
                        r.fail("steady-flagged-dead", format!("member flagged dead right after fresh heartbeat #{k}"), case.clone());
                        break;
                    }
                }
                if seen_live && r.samples.len() < 2 {
                    r.sample(case.clone());
                }
            }
        }
    }
    r.emit();
}
