// C17 (bounded fallback next to the Kani proof on the extracted text): the real
// select_nodes_for_gossip with a seeded StdRng over every pool configuration of a small universe.
// Child module of server.rs in the scratch copy.
#![allow(dead_code, unused_imports)]
use std::collections::HashSet;
use std::net::SocketAddr;

use rand::SeedableRng;
use rand::prelude::StdRng;

use super::*;

#[path = "/verif/native/common.rs"]
mod common;
use common::*;

fn addr(i: u16) -> SocketAddr {
    SocketAddr::from(([127, 0, 0, 1], 10_000 + i))
}

#[test]
fn verif_c17_select() {
    let seeds_per_cfg: u64 = if tier_thorough() { 400 } else { 60 };
    let mut r = Report::new(
        "c17_select",
        &format!("peer universe of 7 addresses: peers = the first p (0..=7), live = the first l of them, dead = the next d, seeds = s addresses starting at offset o (overlapping peers or outside), every (p,l,d,s,o) with l+d <= p, s <= 3, o in {{0,2,6,20}}; {seeds_per_cfg} StdRng seeds each; at most 3 distinct peers from the live pool (or from all peers when none is live), dead / seed peer from its set, seed forced when no live peer, dead forced when dead peers outnumber live ones"),
        false,
    );
    for p in 0..=7u16 {
        for l in 0..=p {
            for d in 0..=(p - l) {
                for s in 0..=3u16 {
                    for o in [0u16, 2, 6, 20] {
                        let peers: HashSet<SocketAddr> = (0..p).map(addr).collect();
                        let live: HashSet<SocketAddr> = (0..l).map(addr).collect();
                        let dead: HashSet<SocketAddr> = (l..l + d).map(addr).collect();
                        let seeds: HashSet<SocketAddr> = (o..o + s).map(addr).collect();
                        for k in 0..seeds_per_cfg {
                            let case = format!("peers={p} live={l} dead={d} seeds={s}@{o} rng_seed={k}");
                            if let Some(rc) = replay_case() {
                                if rc != case {
                                    continue;
                                }
                            }
                            r.evaluations += 1;
                            let mut rng = StdRng::seed_from_u64(k);
                            let res = no_panic(|| select_nodes_for_gossip(&mut rng, peers.clone(), live.clone(), dead.clone(), seeds.clone()));
                            let (nodes, dead_opt, seed_opt) = match res {
                                Err(pn) => {
                                    r.fail("panic", format!("select_nodes_for_gossip panicked: {pn}"), case);
                                    continue;
                                }
                                Ok(x) => x,
                            };
                            if l > 0 || d > 0 || s > 0 {
                                r.nontrivial += 1;
                                if r.samples.len() < 2 && d > l {
                                    r.sample(case.clone());
                                }
                            }
                            let pool = if l == 0 { &peers } else { &live };
                            let distinct: HashSet<&SocketAddr> = nodes.iter().collect();
                            if nodes.len() > 3 || distinct.len() != nodes.len() || nodes.iter().any(|n| !pool.contains(n)) || nodes.len() != pool.len().min(3) {
                                r.fail("peers", format!("selected {:?} from a pool of {}", nodes, pool.len()), case.clone());
                            }
                            if let Some(a) = dead_opt {
                                if !dead.contains(&a) {
                                    r.fail("dead-not-dead", format!("dead peer {a} is not in the dead set"), case.clone());
                                }
                            }
                            if let Some(a) = seed_opt {
                                if !seeds.contains(&a) {
                                    r.fail("seed-not-seed", format!("seed peer {a} is not in the seed set"), case.clone());
                                }
                            }
                            if l == 0 && s > 0 && seed_opt.is_none() {
                                r.fail("seed-not-forced", "no live peer and a seed exists, but no seed is contacted".to_string(), case.clone());
                            }
                            if d > l && dead_opt.is_none() {
                                r.fail("dead-not-forced", "dead peers outnumber live ones, but no dead peer is contacted".to_string(), case.clone());
                            }
                        }
                    }
                }
            }
        }
    }
    r.emit();
}
