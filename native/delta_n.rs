// C08 / C07 (bounded): every op announces exactly the number of bytes it writes - the premise of the
// serializer's budget arithmetic (units/u2_wire.vrs assumes it for DeltaOp). Child module of delta.rs.
#![allow(dead_code, unused_imports)]
use super::*;
use crate::serialize::{Deserializable, Serializable};
use crate::types::{DeletionStatusMutation, KeyValueMutation};
use crate::{ChitchatId, Heartbeat};

#[path = "/verif/native/common.rs"]
mod common;
use common::*;

fn strn(n: usize, seed: u64) -> String {
    let mut s = String::new();
    let mut rng = Rng64(seed);
    while s.len() < n {
        let left = n - s.len();
        let c = match rng.below(10) {
            0 if left >= 4 => '🦀',
            1 | 2 if left >= 2 => 'é',
            _ => (b'a' + rng.below(26) as u8) as char,
        };
        s.push(c);
    }
    s
}

#[test]
fn verif_c08_op_lengths() {
    let lens = [0usize, 1, 2, 255, 256, 1000, 16_383, 16_384, 16_385, 30_000];
    let mut r = Report::new(
        "c08_op_lengths",
        "every DeltaOp kind: Node (node id lengths 0,1,2,255,256,1000,16383..16385,30000; IPv4/IPv6; extreme generation/watermark/start values), KeyValue (key x value lengths over the same classes with key+value <= 60000; every status), SetMaxVersion; serialized_len() vs bytes written, and decode(encode(op)) re-encodes to the same bytes consuming everything",
        true,
    );
    let v4: std::net::SocketAddr = "10.1.2.3:7280".parse().unwrap();
    let v6: std::net::SocketAddr = "[2001:db8::1]:65535".parse().unwrap();
    let mut ops: Vec<(String, DeltaOp)> = Vec::new();
    for (i, &n) in lens.iter().enumerate() {
        for (a, addr) in [v4, v6].iter().enumerate() {
            for (gc, from) in [(0u64, 0u64), (u64::MAX, 1), (7, u64::MAX)] {
                ops.push((
                    format!("Node id_len={n} addr#{a} gc={gc} from={from}"),
                    DeltaOp::Node { chitchat_id: ChitchatId::new(strn(n, i as u64), i as u64 * 77, *addr), last_gc_version: gc, from_version_excluded: from },
                ));
            }
        }
    }
    for &k in &lens {
        for &v in &lens {
            if k + v > 60_000 {
                continue;
            }
            for st in [DeletionStatusMutation::Set, DeletionStatusMutation::Delete, DeletionStatusMutation::DeleteAfterTtl] {
                ops.push((
                    format!("KeyValue key_len={k} value_len={v} status={:?}", st),
                    DeltaOp::KeyValue(KeyValueMutation { key: strn(k, 3), value: strn(v, 4), version: (k * 31 + v) as u64, status: st }),
                ));
            }
        }
    }
    for mv in [0u64, 1, u64::MAX] {
        ops.push((format!("SetMaxVersion {mv}"), DeltaOp::SetMaxVersion { max_version: mv }));
    }
    for (desc, op) in &ops {
        if let Some(rc) = replay_case() {
            if &rc != desc {
                continue;
            }
        }
        r.evaluations += 1;
        let mut bytes = Vec::new();
        op.serialize(&mut bytes);
        r.nontrivial += 1;
        if r.samples.len() < 2 {
            r.sample(format!("{desc}: {} bytes", bytes.len()));
        }
        if bytes.len() != op.serialized_len() {
            r.fail("op-announced-len", format!("op announces {} bytes, writes {}", op.serialized_len(), bytes.len()), desc.clone());
        }
        let mut cur = &bytes[..];
        match DeltaOp::deserialize(&mut cur) {
            Ok(back) => {
                let mut again = Vec::new();
                back.serialize(&mut again);
                if again != bytes || !cur.is_empty() {
                    r.fail("op-roundtrip", format!("decode/encode changed the bytes or left {} bytes", cur.len()), desc.clone());
                }
            }
            Err(e) => r.fail("op-undecodable", format!("own op rejected: {e}"), desc.clone()),
        }
    }
    r.emit();
}
