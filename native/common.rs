// Shared helpers of the native bounded / replay drivers (compiled only in scratch copies of
// /repo, under cfg(all(test, chitchat_verif))).
#![allow(dead_code)]
use std::fmt::Write as _;

pub fn esc(s: &str) -> String {
    let mut o = String::new();
    for c in s.chars() {
        match c {
            '"' => o.push_str("\\\""),
            '\\' => o.push_str("\\\\"),
            '\n' => o.push_str("\\n"),
            '\r' => o.push_str("\\r"),
            '\t' => o.push_str("\\t"),
            c if (c as u32) < 0x20 => {
                let _ = write!(o, "\\u{:04x}", c as u32);
            }
            c => o.push(c),
        }
    }
    o
}

/// One failing case: `sig` identifies it for known-findings matching, `what` says what failed,
/// `case` is the input / history, re-fed through VERIF_REPLAY_CASE on replay.
pub struct Failure {
    pub sig: String,
    pub what: String,
    pub case: String,
}

pub struct Report {
    pub check: &'static str,
    pub bound: String,
    pub evaluations: u64,
    pub nontrivial: u64,
    pub exhaustive: bool,
    pub failures: Vec<Failure>,
    pub samples: Vec<String>,
}

impl Report {
    pub fn new(check: &'static str, bound: &str, exhaustive: bool) -> Report {
        Report {
            check,
            bound: bound.to_string(),
            evaluations: 0,
            nontrivial: 0,
            exhaustive,
            failures: Vec::new(),
            samples: Vec::new(),
        }
    }
    pub fn sample(&mut self, s: String) {
        if self.samples.len() < 3 {
            self.samples.push(s);
        }
    }
    pub fn fail(&mut self, sig: impl Into<String>, what: impl Into<String>, case: impl Into<String>) {
        // at most 3 cases per signature, so that one flooding signature (e.g. a known finding) never
        // hides a different one
        let sig: String = sig.into();
        if self.failures.iter().filter(|f| f.sig == sig).count() < 3 && self.failures.len() < 60 {
            self.failures.push(Failure {
                sig,
                what: what.into(),
                case: case.into(),
            });
        }
    }
    pub fn emit(&self) {
        let mut o = String::new();
        let _ = write!(
            o,
            "{{\"check\":\"{}\",\"bound\":\"{}\",\"evaluations\":{},\"nontrivial\":{},\"exhaustive\":{},\"failures\":[",
            self.check,
            esc(&self.bound),
            self.evaluations,
            self.nontrivial,
            self.exhaustive
        );
        for (i, f) in self.failures.iter().enumerate() {
            if i > 0 {
                o.push(',');
            }
            let _ = write!(
                o,
                "{{\"sig\":\"{}\",\"what\":\"{}\",\"case\":\"{}\"}}",
                esc(&f.sig),
                esc(&f.what),
                esc(&f.case)
            );
        }
        o.push_str("],\"samples\":[");
        for (i, s) in self.samples.iter().enumerate() {
            if i > 0 {
                o.push(',');
            }
            let _ = write!(o, "\"{}\"", esc(s));
        }
        o.push_str("]}");
        println!("VERIF-RESULT {}", o);
    }
}

pub fn tier_thorough() -> bool {
    std::env::var("VERIF_TIER").map(|t| t == "thorough").unwrap_or(false)
}

pub fn seed() -> u64 {
    std::env::var("VERIF_SEED").ok().and_then(|s| s.parse().ok()).unwrap_or(0)
}

/// when set, the driver runs only the case with this description (replay of a reported failure)
pub fn replay_case() -> Option<String> {
    std::env::var("VERIF_REPLAY_CASE").ok().filter(|s| !s.is_empty())
}

/// runs f, converting a panic of the code under test into Err(message); the default panic hook is
/// silenced meanwhile
pub fn no_panic<T>(f: impl FnOnce() -> T) -> Result<T, String> {
    let prev = std::panic::take_hook();
    std::panic::set_hook(Box::new(|_| {}));
    let r = std::panic::catch_unwind(std::panic::AssertUnwindSafe(f));
    std::panic::set_hook(prev);
    r.map_err(|e| {
        if let Some(s) = e.downcast_ref::<String>() {
            s.clone()
        } else if let Some(s) = e.downcast_ref::<&str>() {
            s.to_string()
        } else {
            "panic".to_string()
        }
    })
}

/// splitmix64 - deterministic pseudo random numbers for the seeded (thorough) scopes
pub struct Rng64(pub u64);
impl Rng64 {
    pub fn next(&mut self) -> u64 {
        self.0 = self.0.wrapping_add(0x9E3779B97F4A7C15);
        let mut z = self.0;
        z = (z ^ (z >> 30)).wrapping_mul(0xBF58476D1CE4E5B9);
        z = (z ^ (z >> 27)).wrapping_mul(0x94D049BB133111EB);
        z ^ (z >> 31)
    }
    pub fn below(&mut self, n: u64) -> u64 {
        if n == 0 {
            0
        } else {
            self.next() % n
        }
    }
}
