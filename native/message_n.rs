// C08 (bounded): whole messages against an independent implementation of the documented wire
// layout (written here from ALGORITHM.md / the layout comments, not from the encoder's code):
//   header  = magic 45139 (u16 LE) | version 0 | tag {0 Syn, 1 SynAck, 2 Ack, 3 BadCluster}
//   Syn     = header digest cluster_id        SynAck = header digest delta       Ack = header delta
//   digest  = u16 count, then per member: id heartbeat(u64) last_gc(u64) max_version(u64)
//   id      = str(node_id) generation(u64) ip(4|6 tag + octets) port(u16);  str = u16 len + bytes
//   delta   = blocks: [1 | u16 len | zstd bytes] or [2 | u16 len | raw bytes] ..., then 0
//   ops     = 0 id last_gc(u64) from(u64) | 1 str(key) str(value) version(u64) status(u8) | 2 max(u64)
// Child module of message.rs in the scratch copy.
#![allow(dead_code, unused_imports)]
use std::net::{IpAddr, Ipv4Addr, Ipv6Addr, SocketAddr};

use super::*;
use crate::delta::Delta;
use crate::digest::Digest;
use crate::serialize::CompressedStreamWriter;
use crate::types::DeletionStatusMutation;
use crate::{ChitchatId, Heartbeat};

#[path = "/verif/native/common.rs"]
mod common;
use common::*;

#[derive(Clone, Debug, PartialEq)]
struct MId {
    node_id: String,
    generation: u64,
    addr: SocketAddr,
}
#[derive(Clone, Debug, PartialEq)]
enum MOp {
    Node(MId, u64, u64),
    Kv(String, String, u64, u8),
    Max(u64),
}
#[derive(Clone, Debug, PartialEq)]
enum MMsg {
    Syn(String, Vec<(MId, u64, u64, u64)>),
    SynAck(Vec<(MId, u64, u64, u64)>, Vec<MOp>),
    Ack(Vec<MOp>),
    BadCluster,
}

// ---------------------------------------------------------------- reference encoder
fn r_u16(x: u16, o: &mut Vec<u8>) {
    o.push((x & 0xff) as u8);
    o.push((x >> 8) as u8);
}
fn r_u64(x: u64, o: &mut Vec<u8>) {
    for i in 0..8 {
        o.push(((x >> (8 * i)) & 0xff) as u8);
    }
}
fn r_str(s: &str, o: &mut Vec<u8>) {
    r_u16(s.len() as u16, o);
    o.extend_from_slice(s.as_bytes());
}
fn r_id(id: &MId, o: &mut Vec<u8>) {
    r_str(&id.node_id, o);
    r_u64(id.generation, o);
    match id.addr.ip() {
        IpAddr::V4(a) => {
            o.push(4);
            o.extend_from_slice(&a.octets());
        }
        IpAddr::V6(a) => {
            o.push(6);
            o.extend_from_slice(&a.octets());
        }
    }
    r_u16(id.addr.port(), o);
}
fn r_digest(d: &[(MId, u64, u64, u64)], o: &mut Vec<u8>) {
    r_u16(d.len() as u16, o);
    for (id, hb, gc, mv) in d {
        r_id(id, o);
        r_u64(*hb, o);
        r_u64(*gc, o);
        r_u64(*mv, o);
    }
}
fn r_ops(ops: &[MOp]) -> Vec<u8> {
    let mut o = Vec::new();
    for op in ops {
        match op {
            MOp::Node(id, gc, from) => {
                o.push(0);
                r_id(id, &mut o);
                r_u64(*gc, &mut o);
                r_u64(*from, &mut o);
            }
            MOp::Kv(k, v, ver, st) => {
                o.push(1);
                r_str(k, &mut o);
                r_str(v, &mut o);
                r_u64(*ver, &mut o);
                o.push(*st);
            }
            MOp::Max(v) => {
                o.push(2);
                r_u64(*v, &mut o);
            }
        }
    }
    o
}
/// block stream with a chosen block size and a chosen block kind per block index
fn r_blocks(raw: &[u8], block: usize, mode: u8, o: &mut Vec<u8>) {
    let mut i = 0usize;
    let mut k = 0usize;
    while i < raw.len() {
        let n = block.min(raw.len() - i);
        let chunk = &raw[i..i + n];
        let compress = match mode {
            0 => false,
            1 => true,
            _ => k % 2 == 0,
        };
        if compress {
            let c = zstd::bulk::compress(chunk, 0).unwrap();
            if c.len() <= 65_535 {
                o.push(1);
                r_u16(c.len() as u16, o);
                o.extend_from_slice(&c);
            } else {
                o.push(2);
                r_u16(n as u16, o);
                o.extend_from_slice(chunk);
            }
        } else {
            o.push(2);
            r_u16(n as u16, o);
            o.extend_from_slice(chunk);
        }
        i += n;
        k += 1;
    }
    o.push(0);
}
fn r_msg(m: &MMsg, block: usize, mode: u8) -> Vec<u8> {
    let mut o = Vec::new();
    r_u16(45_139, &mut o);
    o.push(0);
    match m {
        MMsg::Syn(c, d) => {
            o.push(0);
            r_digest(d, &mut o);
            r_str(c, &mut o);
        }
        MMsg::SynAck(d, ops) => {
            o.push(1);
            r_digest(d, &mut o);
            r_blocks(&r_ops(ops), block, mode, &mut o);
        }
        MMsg::Ack(ops) => {
            o.push(2);
            r_blocks(&r_ops(ops), block, mode, &mut o);
        }
        MMsg::BadCluster => o.push(3),
    }
    o
}

// ---------------------------------------------------------------- reference decoder
struct Cur<'a>(&'a [u8]);
impl<'a> Cur<'a> {
    fn take(&mut self, n: usize) -> Option<&'a [u8]> {
        if self.0.len() < n {
            return None;
        }
        let (a, b) = self.0.split_at(n);
        self.0 = b;
        Some(a)
    }
    fn u8(&mut self) -> Option<u8> {
        self.take(1).map(|b| b[0])
    }
    fn u16(&mut self) -> Option<u16> {
        self.take(2).map(|b| b[0] as u16 | (b[1] as u16) << 8)
    }
    fn u64(&mut self) -> Option<u64> {
        self.take(8).map(|b| (0..8).fold(0u64, |acc, i| acc | (b[i] as u64) << (8 * i)))
    }
    fn str(&mut self) -> Option<String> {
        let n = self.u16()? as usize;
        String::from_utf8(self.take(n)?.to_vec()).ok()
    }
    fn id(&mut self) -> Option<MId> {
        let node_id = self.str()?;
        let generation = self.u64()?;
        let ip = match self.u8()? {
            4 => {
                let b = self.take(4)?;
                IpAddr::V4(Ipv4Addr::new(b[0], b[1], b[2], b[3]))
            }
            6 => {
                let b: [u8; 16] = self.take(16)?.try_into().ok()?;
                IpAddr::V6(Ipv6Addr::from(b))
            }
            _ => return None,
        };
        let port = self.u16()?;
        Some(MId { node_id, generation, addr: SocketAddr::new(ip, port) })
    }
    fn digest(&mut self) -> Option<Vec<(MId, u64, u64, u64)>> {
        let n = self.u16()?;
        let mut v = Vec::new();
        for _ in 0..n {
            v.push((self.id()?, self.u64()?, self.u64()?, self.u64()?));
        }
        Some(v)
    }
    fn ops(&mut self) -> Option<Vec<MOp>> {
        let mut raw = Vec::new();
        loop {
            match self.u8()? {
                0 => break,
                1 => {
                    let n = self.u16()? as usize;
                    let c = self.take(n)?;
                    raw.extend(zstd::bulk::decompress(c, 65_535).ok()?);
                }
                2 => {
                    let n = self.u16()? as usize;
                    raw.extend_from_slice(self.take(n)?);
                }
                _ => return None,
            }
        }
        let mut c = Cur(&raw);
        let mut ops = Vec::new();
        while !c.0.is_empty() {
            ops.push(match c.u8()? {
                0 => MOp::Node(c.id()?, c.u64()?, c.u64()?),
                1 => MOp::Kv(c.str()?, c.str()?, c.u64()?, c.u8()?),
                2 => MOp::Max(c.u64()?),
                _ => return None,
            });
        }
        Some(ops)
    }
}
fn r_decode(bytes: &[u8]) -> Option<MMsg> {
    let mut c = Cur(bytes);
    if c.u16()? != 45_139 || c.u8()? != 0 {
        return None;
    }
    let m = match c.u8()? {
        0 => {
            let d = c.digest()?;
            MMsg::Syn(c.str()?, d)
        }
        1 => MMsg::SynAck(c.digest()?, c.ops()?),
        2 => MMsg::Ack(c.ops()?),
        3 => MMsg::BadCluster,
        _ => return None,
    };
    if !c.0.is_empty() {
        return None;
    }
    Some(m)
}

// ---------------------------------------------------------------- model <-> real
fn real_id(id: &MId) -> ChitchatId {
    ChitchatId::new(id.node_id.clone(), id.generation, id.addr)
}
fn model_id(id: &ChitchatId) -> MId {
    MId { node_id: id.node_id.clone(), generation: id.generation_id, addr: id.gossip_advertise_addr }
}
fn real_digest(d: &[(MId, u64, u64, u64)]) -> Digest {
    let mut out = Digest::default();
    for (id, hb, gc, mv) in d {
        out.add_node(real_id(id), Heartbeat(*hb), *gc, *mv);
    }
    out
}
fn model_digest(d: &Digest) -> Vec<(MId, u64, u64, u64)> {
    d.node_digests.iter().map(|(id, nd)| (model_id(id), u64::from(nd.heartbeat), nd.last_gc_version, nd.max_version)).collect()
}
struct Raw(Vec<u8>);
impl Serializable for Raw {
    fn serialize(&self, b: &mut Vec<u8>) {
        b.extend(&self.0)
    }
    fn serialized_len(&self) -> usize {
        self.0.len()
    }
}
fn st_of(code: u8) -> bool {
    code == 1
}
/// the real Delta for a well-formed op list; its announced length is computed with the real stream
/// writer fed op by op (exactly what the MTU-bounded serializer does)
fn real_delta(ops: &[MOp]) -> Delta {
    let mut delta = Delta::default();
    let mut w = CompressedStreamWriter::with_block_threshold(16_384);
    let mut cur: Option<ChitchatId> = None;
    for op in ops {
        let bytes = r_ops(std::slice::from_ref(op));
        // ops larger than 65,535 bytes cannot be appended to the stream; the generator avoids them
        w.append(&Raw(bytes));
        match op {
            MOp::Node(id, gc, from) => {
                let rid = real_id(id);
                delta.add_node(rid.clone(), *gc, *from);
                cur = Some(rid);
            }
            MOp::Kv(k, v, ver, st) => {
                let idc = cur.clone().unwrap();
                delta.add_kv(&idc, k, v, *ver, false);
                let nd = delta.node_deltas.iter_mut().find(|nd| nd.chitchat_id == idc).unwrap();
                nd.key_values.last_mut().unwrap().status = match st {
                    0 => DeletionStatusMutation::Set,
                    1 => DeletionStatusMutation::Delete,
                    _ => DeletionStatusMutation::DeleteAfterTtl,
                };
            }
            MOp::Max(v) => {
                let idc = cur.clone().unwrap();
                let nd = delta.node_deltas.iter_mut().find(|nd| nd.chitchat_id == idc).unwrap();
                nd.max_version = *v;
            }
        }
    }
    delta.set_serialized_len(w.finish().len());
    delta
}
fn model_ops(delta: &Delta) -> Vec<MOp> {
    let mut ops = Vec::new();
    for nd in &delta.node_deltas {
        ops.push(MOp::Node(model_id(&nd.chitchat_id), nd.last_gc_version, nd.from_version_excluded));
        for kv in &nd.key_values {
            ops.push(MOp::Kv(kv.key.clone(), kv.value.clone(), kv.version, u8::from(kv.status)));
        }
        if nd.key_values.is_empty() && nd.max_version > 0 {
            ops.push(MOp::Max(nd.max_version));
        }
    }
    ops
}
fn real_msg(m: &MMsg) -> ChitchatMessage {
    match m {
        MMsg::Syn(c, d) => ChitchatMessage::Syn { cluster_id: c.clone(), digest: real_digest(d) },
        MMsg::SynAck(d, ops) => ChitchatMessage::SynAck { digest: real_digest(d), delta: real_delta(ops) },
        MMsg::Ack(ops) => ChitchatMessage::Ack { delta: real_delta(ops) },
        MMsg::BadCluster => ChitchatMessage::BadCluster,
    }
}
fn model_msg(m: &ChitchatMessage) -> MMsg {
    match m {
        ChitchatMessage::Syn { cluster_id, digest } => MMsg::Syn(cluster_id.clone(), model_digest(digest)),
        ChitchatMessage::SynAck { digest, delta } => MMsg::SynAck(model_digest(digest), model_ops(delta)),
        ChitchatMessage::Ack { delta } => MMsg::Ack(model_ops(delta)),
        ChitchatMessage::BadCluster => MMsg::BadCluster,
        #[allow(unreachable_patterns)]
        _ => MMsg::BadCluster,
    }
}
/// digests are maps on the real side: compare as sorted lists
fn norm(m: MMsg) -> MMsg {
    fn sortd(mut d: Vec<(MId, u64, u64, u64)>) -> Vec<(MId, u64, u64, u64)> {
        d.sort_by(|a, b| real_id(&a.0).cmp(&real_id(&b.0)));
        d
    }
    match m {
        MMsg::Syn(c, d) => MMsg::Syn(c, sortd(d)),
        MMsg::SynAck(d, o) => MMsg::SynAck(sortd(d), o),
        x => x,
    }
}

fn check_msg(m: &MMsg, desc: &str, r: &mut Report) {
    let case = desc.to_string();
    if let Some(rc) = replay_case() {
        if rc != case {
            return;
        }
    }
    r.evaluations += 1;
    let want = norm(m.clone());
    // (1) the real encoder: announced length, reference decoding, real decoding
    let real = real_msg(m);
    let bytes = match no_panic(|| real.serialize_to_vec()) {
        Ok(b) => b,
        Err(p) => {
            r.fail("encode-panic", format!("serialize panicked: {p}"), case);
            return;
        }
    };
    r.nontrivial += 1;
    if bytes.len() != real.serialized_len() {
        r.fail("announced-len", format!("announced {} bytes, wrote {}", real.serialized_len(), bytes.len()), case.clone());
    }
    match r_decode(&bytes) {
        Some(got) if norm(got.clone()) == want => {}
        Some(got) => r.fail("reference-decodes-differently", format!("independent decoder reads {:.300?}", got), case.clone()),
        None => r.fail("reference-cannot-decode", "the independent decoder rejects the real encoder's bytes".to_string(), case.clone()),
    }
    let mut cur = &bytes[..];
    match no_panic(|| ChitchatMessage::deserialize(&mut cur)) {
        Ok(Ok(back)) => {
            if back != real {
                r.fail("roundtrip", "decoded message differs from the encoded one".to_string(), case.clone());
            }
            if !cur.is_empty() {
                r.fail("roundtrip-leftover", format!("{} bytes left after decoding", cur.len()), case.clone());
            }
        }
        Ok(Err(e)) => r.fail("roundtrip-error", format!("own bytes rejected: {e}"), case.clone()),
        Err(p) => r.fail("decode-panic", format!("deserialize panicked: {p}"), case.clone()),
    }
    // (2) the independent encoder, several block layouts -> the real decoder
    for (block, mode) in [(16_384usize, 0u8), (16_384, 1), (7, 0), (1000, 2), (65_535, 1)] {
        if matches!(m, MMsg::Syn(..) | MMsg::BadCluster) && (block, mode) != (16_384, 0) {
            continue;
        }
        let rb = r_msg(m, block, mode);
        let mut cur = &rb[..];
        match no_panic(|| ChitchatMessage::deserialize(&mut cur)) {
            Ok(Ok(back)) => {
                if norm(model_msg(&back)) != want {
                    r.fail("real-decodes-differently", format!("block={block} mode={mode}: real decoder reads {:.300?}", model_msg(&back)), case.clone());
                }
                if !cur.is_empty() {
                    r.fail("real-leftover", format!("block={block} mode={mode}: {} bytes left", cur.len()), case.clone());
                }
                if let ChitchatMessage::SynAck { delta, .. } | ChitchatMessage::Ack { delta } = &back {
                    let body = match m {
                        MMsg::SynAck(d, _) => {
                            let mut x = Vec::new();
                            r_digest(d, &mut x);
                            rb.len() - 4 - x.len()
                        }
                        _ => rb.len() - 4,
                    };
                    if delta.serialized_len() != body {
                        r.fail("decoded-len", format!("block={block} mode={mode}: decoded delta announces {} bytes, it occupied {body}", delta.serialized_len()), case.clone());
                    }
                }
            }
            Ok(Err(e)) => r.fail("real-rejects-reference", format!("block={block} mode={mode}: {e}"), case.clone()),
            Err(p) => r.fail("decode-panic", format!("block={block} mode={mode}: deserialize panicked: {p}"), case.clone()),
        }
    }
}

fn strn(n: usize, seed: u64) -> String {
    // valid UTF-8 of exactly n bytes mixing 1-, 2- and 4-byte characters
    let mut s = String::new();
    let mut rng = Rng64(seed);
    while s.len() < n {
        let left = n - s.len();
        let c = match rng.below(10) {
            0 if left >= 4 => '🦀',
            1 | 2 if left >= 2 => 'é',
            _ => (b'a' + rng.below(26) as u8) as char,
        };
        s.push(c);
    }
    s
}

#[test]
fn verif_c08_messages() {
    let classes: Vec<usize> = if tier_thorough() { vec![0, 1, 255, 256, 16_383, 16_384, 16_385, 40_000, 65_535] } else { vec![0, 1, 255, 256, 16_383, 16_384, 16_385, 65_535] };
    let mut r = Report::new(
        "c08_messages",
        &format!("Syn/SynAck/Ack/BadCluster; digests of 0,1,2,50{} members, IPv4 and IPv6, node ids and cluster ids of byte lengths {:?} (1-, 2-, 4-byte characters); deltas mixing member headers, key-values of every status, SetMaxVersion tails, empty members, key/value lengths of the same classes (ops <= 65,535 bytes); real encoder vs an independent decoder and 5 block layouts of an independent encoder (uncompressed, compressed, 7-byte blocks, alternating 1000-byte blocks, one 65,535-byte block) vs the real decoder", if tier_thorough() { ",2000" } else { "" }, classes),
        true,
    );
    let v4: SocketAddr = "10.1.2.3:7280".parse().unwrap();
    let v6: SocketAddr = "[2001:db8::1]:65535".parse().unwrap();
    let mid = |n: usize, k: u64| MId { node_id: strn(n, k), generation: k.wrapping_mul(0x9E37_79B9_7F4A_7C15), addr: if k % 2 == 0 { v4 } else { v6 } };
    check_msg(&MMsg::BadCluster, "BadCluster", &mut r);
    // ---- Syn: cluster id and node id length classes
    for &n in &classes {
        check_msg(&MMsg::Syn(strn(n, 1), vec![]), &format!("Syn cluster_id_len={n} empty digest"), &mut r);
        check_msg(&MMsg::Syn("c".into(), vec![(mid(n, 2), 1, 0, 0), (mid(n, 3), u64::MAX, u64::MAX, u64::MAX)]), &format!("Syn two members node_id_len={n}"), &mut r);
    }
    let mut counts = vec![0usize, 1, 2, 50];
    if tier_thorough() {
        counts.push(2000);
    }
    for &cnt in &counts {
        let d: Vec<(MId, u64, u64, u64)> = (0..cnt).map(|i| (mid(3 + i % 5, i as u64 + 10), i as u64, (i / 2) as u64, (i * 3) as u64)).collect();
        check_msg(&MMsg::Syn("default-cluster".into(), d.clone()), &format!("Syn digest of {cnt} members"), &mut r);
        check_msg(&MMsg::SynAck(d, vec![]), &format!("SynAck digest of {cnt} members, empty delta"), &mut r);
    }
    // ---- deltas
    check_msg(&MMsg::Ack(vec![]), "Ack empty delta", &mut r);
    for &n in &classes {
        for &vn in &[0usize, 1, 16_384, 49_000] {
            if n + vn + 30 > 65_000 {
                continue;
            }
            let ops = vec![
                MOp::Node(mid(4, 20), 2, 1),
                MOp::Kv(strn(n, 5), strn(vn, 6), 2, 0),
                MOp::Kv("k2".into(), String::new(), 3, 1),
                MOp::Kv("é".into(), "ttl".into(), 9, 2),
                MOp::Node(mid(1, 21), 0, 0),
                MOp::Node(mid(0, 22), 7, 0),
                MOp::Max(12),
            ];
            check_msg(&MMsg::Ack(ops.clone()), &format!("Ack key_len={n} value_len={vn} 3 members"), &mut r);
            if r.samples.len() < 2 {
                r.sample(format!("Ack key_len={n} value_len={vn}: Node, 3 KVs (set, delete, ttl), empty member, member with SetMaxVersion"));
            }
            check_msg(&MMsg::SynAck(vec![(mid(2, 30), 5, 1, 9)], ops), &format!("SynAck key_len={n} value_len={vn}"), &mut r);
        }
    }
    // many small ops: several blocks on the real side
    let many: Vec<MOp> = std::iter::once(MOp::Node(mid(5, 40), 0, 0))
        .chain((1..=3000u64).map(|i| MOp::Kv(format!("key-{i}"), strn((i % 40) as usize, i), i, (i % 3) as u8)))
        .collect();
    check_msg(&MMsg::Ack(many), "Ack 3000 small key-values (multi-block)", &mut r);
    // near-incompressible multi-block
    let noisy: Vec<MOp> = std::iter::once(MOp::Node(mid(5, 41), 3, 0))
        .chain((1..=6u64).map(|i| {
            let mut rng = Rng64(i);
            MOp::Kv(format!("n{i}"), (0..9000).map(|_| (33 + rng.below(94) as u8) as char).collect(), i, 0)
        }))
        .collect();
    check_msg(&MMsg::Ack(noisy), "Ack 6 x 9000 bytes of 7-bit noise (uncompressed blocks on the real side)", &mut r);
    r.emit();
}
