// C15 (bounded): key-change listener dispatch on the real Listeners / InnerListeners, compared
// with str::starts_with / strip_prefix. Child module of listener.rs in the scratch copy.
#![allow(dead_code, unused_imports)]
use std::sync::{Arc, Mutex};

use super::*;
use crate::{ChitchatId, KeyChangeEvent};

#[path = "/verif/native/common.rs"]
mod common;
use common::*;

fn strings_upto(alpha: &[&str], maxlen: usize) -> Vec<String> {
    let mut out = vec![String::new()];
    let mut frontier = vec![String::new()];
    for _ in 0..maxlen {
        let mut next = Vec::new();
        for s in &frontier {
            for a in alpha {
                let mut t = s.clone();
                t.push_str(a);
                next.push(t);
            }
        }
        out.extend(next.iter().cloned());
        frontier = next;
    }
    out
}

type Log = Arc<Mutex<Vec<(usize, String, String)>>>;

fn subscribe(listeners: &Listeners, idx: usize, prefix: &str, log: &Log) -> ListenerHandle {
    let log = log.clone();
    listeners.subscribe_event(prefix, move |ev: KeyChangeEvent| {
        log.lock().unwrap().push((idx, ev.key.to_string(), ev.value.to_string()));
    })
}

/// every key (<= 3 symbols over {a, b, é, 🦀}) against every single prefix, and against prefix
/// sets of size up to 8 drawn by a fixed stride; drop / forever variants
#[test]
fn verif_c15_dispatch() {
    let alpha = ["a", "b", "é", "🦀"];
    let keys = strings_upto(&alpha, 3);
    let prefixes = strings_upto(&alpha, if tier_thorough() { 3 } else { 2 });
    let mut r = Report::new(
        "c15_dispatch",
        &format!("all {} keys of <= 3 symbols over {{a,b,é,🦀}} x (every single prefix of <= {} symbols, plus 40 prefix sets of size 2..8 with one dropped handle and one forever handle; plus every order of up to 5 (thorough 6) subscribe / drop / forever operations over the prefixes 'a' and ''); expected calls computed with str::strip_prefix", keys.len(), if tier_thorough() { 3 } else { 2 }),
        true,
    );
    let node = ChitchatId::for_local_test(7);
    // ---- single prefix x key
    for p in &prefixes {
        let mut listeners = Listeners::default();
        let log: Log = Arc::new(Mutex::new(Vec::new()));
        let _h = subscribe(&listeners, 0, p, &log);
        for k in &keys {
            let case = format!("prefixes=[{:?}] key={:?}", p, k);
            if let Some(rc) = replay_case() {
                if rc != case {
                    continue;
                }
            }
            r.evaluations += 1;
            log.lock().unwrap().clear();
            let ev = KeyChangeEvent { key: k, value: "v", node: &node };
            if let Err(pn) = no_panic(|| listeners.trigger_event(ev)) {
                r.fail(format!("panic:{}", pn.chars().filter(|c| c.is_ascii_alphanumeric()).take(30).collect::<String>()), format!("trigger_event panicked: {pn}"), case);
                // the lock may be poisoned: rebuild
                listeners = Listeners::default();
                std::mem::forget(subscribe(&listeners, 0, p, &log));
                continue;
            }
            let got = log.lock().unwrap().clone();
            let want: Vec<(usize, String, String)> = match k.strip_prefix(p.as_str()) {
                Some(rest) => vec![(0, rest.to_string(), "v".to_string())],
                None => vec![],
            };
            if !want.is_empty() {
                r.nontrivial += 1;
                if r.samples.len() < 2 {
                    r.sample(case.clone());
                }
            }
            if got != want {
                r.fail("wrong-calls", format!("got {:?}, expected {:?}", got, want), case);
            }
        }
    }
    // ---- prefix sets
    let nsets = 40usize;
    for s in 0..nsets {
        let size = 2 + s % 7;
        let mut chosen: Vec<String> = Vec::new();
        for j in 0..size {
            chosen.push(prefixes[(s * 7 + j * 5 + j * j) % prefixes.len()].clone());
        }
        let mut listeners = Listeners::default();
        let log: Log = Arc::new(Mutex::new(Vec::new()));
        let mut handles = Vec::new();
        for (i, p) in chosen.iter().enumerate() {
            handles.push(Some(subscribe(&listeners, i, p, &log)));
        }
        // drop handle #1 (cancelled), forever handle #0 (stays active)
        let dropped = 1usize;
        handles[dropped] = None;
        if let Some(h) = handles[0].take() {
            h.forever();
        }
        for k in &keys {
            let case = format!("prefixes={:?} dropped=#1 forever=#0 key={:?}", chosen, k);
            if let Some(rc) = replay_case() {
                if rc != case {
                    continue;
                }
            }
            r.evaluations += 1;
            log.lock().unwrap().clear();
            let ev = KeyChangeEvent { key: k, value: "v", node: &node };
            if let Err(pn) = no_panic(|| listeners.trigger_event(ev)) {
                r.fail(format!("panic:{}", pn.chars().filter(|c| c.is_ascii_alphanumeric()).take(30).collect::<String>()), format!("trigger_event panicked: {pn}"), case);
                break;
            }
            let mut got = log.lock().unwrap().clone();
            got.sort();
            let mut want: Vec<(usize, String, String)> = Vec::new();
            for (i, p) in chosen.iter().enumerate() {
                if i == dropped {
                    continue;
                }
                if let Some(rest) = k.strip_prefix(p.as_str()) {
                    want.push((i, rest.to_string(), "v".to_string()));
                }
            }
            want.sort();
            if !want.is_empty() {
                r.nontrivial += 1;
            }
            if got != want {
                r.fail("wrong-calls-set", format!("got {:?}, expected {:?}", got, want), case);
            }
        }
    }
    // ---- subscribe / drop / forever orders on shared prefixes
    #[derive(Clone, Copy, Debug)]
    enum LOp {
        Sub(u8),
        Drop(u8),
        Forever(u8),
    }
    let lops: Vec<LOp> = vec![LOp::Sub(0), LOp::Sub(1), LOp::Drop(0), LOp::Drop(1), LOp::Drop(2), LOp::Forever(0), LOp::Forever(1)];
    let pfx = ["a", ""];
    let maxlen = if tier_thorough() { 6 } else { 5 };
    let mut idx: Vec<usize> = vec![0];
    loop {
        let seq: Vec<LOp> = idx.iter().map(|i| lops[*i]).collect();
        let case = format!("ops={:?} (Sub(i): subscribe prefix {:?}[i]; Drop(j)/Forever(j): j-th handle created) key=\"ab\"", seq, pfx);
        let skip = replay_case().map(|rc| rc != case).unwrap_or(false);
        if !skip {
            r.evaluations += 1;
            let mut listeners = Listeners::default();
            let log: Log = Arc::new(Mutex::new(Vec::new()));
            let mut handles: Vec<Option<ListenerHandle>> = Vec::new();
            let mut active: Vec<(usize, usize)> = Vec::new(); // (subscription number, prefix index)
            let mut created = 0usize;
            for op in &seq {
                match *op {
                    LOp::Sub(p) => {
                        handles.push(Some(subscribe(&listeners, created, pfx[p as usize], &log)));
                        active.push((created, p as usize));
                        created += 1;
                    }
                    LOp::Drop(j) => {
                        if let Some(h) = handles.get_mut(j as usize) {
                            if h.take().is_some() {
                                active.retain(|(n, _)| *n != j as usize);
                            }
                        }
                    }
                    LOp::Forever(j) => {
                        if let Some(h) = handles.get_mut(j as usize) {
                            if let Some(hh) = h.take() {
                                hh.forever();
                            }
                        }
                    }
                }
            }
            let ev = KeyChangeEvent { key: "ab", value: "v", node: &node };
            if let Err(pn) = no_panic(|| listeners.trigger_event(ev)) {
                r.fail("panic-orders", format!("trigger_event panicked: {pn}"), case.clone());
            } else {
                let mut got = log.lock().unwrap().clone();
                got.sort();
                let mut want: Vec<(usize, String, String)> = active
                    .iter()
                    .map(|(n, p)| (*n, "ab".strip_prefix(pfx[*p]).unwrap().to_string(), "v".to_string()))
                    .collect();
                want.sort();
                if !want.is_empty() {
                    r.nontrivial += 1;
                }
                if got != want {
                    r.fail("wrong-calls-orders", format!("got {:?}, expected {:?}", got, want), case.clone());
                }
            }
            // keep the forever / remaining handles alive until after the trigger
            drop(handles);
        }
        // next sequence
        if idx.len() < maxlen {
            idx.push(0);
            continue;
        }
        let mut done = true;
        while let Some(last) = idx.pop() {
            if last + 1 < lops.len() {
                idx.push(last + 1);
                done = false;
                break;
            }
        }
        if done {
            break;
        }
    }
    r.emit();
}
