// Native bounded stand-ins and replay drivers that need `Chitchat` (child module of lib.rs in the
// scratch copy, so private fields and functions of lib.rs are visible). Grade B: every scope is
// stated in the report; nothing here is ever counted as proved.
#![allow(dead_code, unused_imports)]
use std::collections::{BTreeMap, HashSet};
use std::time::Duration;

use tokio::sync::watch;

use super::*;
use crate::serialize::*;

#[path = "/verif/native/common.rs"]
mod common;
use common::*;

pub(crate) fn mk(port: u16) -> Chitchat {
    let config = ChitchatConfig::for_test(port);
    let (_tx, rx) = watch::channel(Default::default());
    Chitchat::with_chitchat_id_and_seeds(config, rx, Vec::new())
}

struct Raw(Vec<u8>);
impl Serializable for Raw {
    fn serialize(&self, b: &mut Vec<u8>) {
        b.extend(&self.0)
    }
    fn serialized_len(&self) -> usize {
        self.0.len()
    }
}

#[test]
fn verif_selfcheck() {
    let mut r = Report::new("selfcheck", "none", true);
    let mut n = mk(1);
    n.self_node_state().set("k", "v");
    r.evaluations = 2;
    r.nontrivial = 2;
    r.sample("set k=v on a fresh node".to_string());
    if n.self_node_state().get("k") != Some("v") {
        r.fail("selfcheck", "get after set", "k=v");
    }
    r.emit();
}

// ------------------------------------------------------------------------------------------
// C09 (+C04): structure-aware op streams, every order, delivered as ACK to a node in every small
// frontier. Decoding may fail; whatever decodes must be processed without a panic and must keep
// (watermark, max version) monotone and every stored version <= max version.
#[derive(Clone, Copy, Debug, PartialEq)]
enum Op {
    Node(u8, u64, u64), // member index, last_gc_version, from_version_excluded
    Kv(u8, u64, u8),    // key index, version, status code (0 set, 1 delete, 2 ttl)
    Max(u64),
}

fn member(i: u8) -> ChitchatId {
    ChitchatId::for_local_test(10_000 + i as u16)
}

fn op_bytes(op: &Op, out: &mut Vec<u8>) {
    match *op {
        Op::Node(m, gc, from) => {
            out.push(0u8);
            member(m).serialize(out);
            gc.serialize(out);
            from.serialize(out);
        }
        Op::Kv(k, ver, st) => {
            out.push(1u8);
            ["a", "b", "é"][k as usize].serialize(out);
            "v".serialize(out);
            ver.serialize(out);
            out.push(st);
        }
        Op::Max(v) => {
            out.push(2u8);
            v.serialize(out);
        }
    }
}

fn ack_bytes(ops: &[Op]) -> Vec<u8> {
    let mut w = CompressedStreamWriter::with_block_threshold(16_384);
    if !ops.is_empty() {
        let mut b = Vec::new();
        for op in ops {
            op_bytes(op, &mut b);
        }
        w.append(&Raw(b));
    }
    let payload = w.finish();
    let mut msg = Vec::new();
    msg.extend(45_139u16.to_le_bytes());
    msg.push(0);
    msg.push(2); // Ack
    msg.extend(&payload);
    msg
}

fn op_alphabet() -> Vec<Op> {
    let mut v = Vec::new();
    for m in 0..2u8 {
        for gc in [0u64, 2] {
            for from in [0u64, 1, 3] {
                v.push(Op::Node(m, gc, from));
            }
        }
    }
    for k in 0..2u8 {
        for ver in [1u64, 2, 3] {
            for st in [0u8, 1] {
                v.push(Op::Kv(k, ver, st));
            }
        }
    }
    for mv in [0u64, 1, 3] {
        v.push(Op::Max(mv));
    }
    v
}

/// receiver with a copy of member 0 at the given (watermark, max version) and one key at max
fn receiver_with_copy(gc: u64, max: u64) -> Chitchat {
    let mut n = mk(1);
    let id = member(0);
    let ns = n.cluster_state.node_state_mut_or_init(&id);
    if max > 0 {
        ns.set_versioned_value("a".to_string(), VersionedValue::for_test("old", max));
    }
    ns.set_last_gc_version(gc);
    n
}

fn check_stream(state: (u64, u64), ops: &[Op], r: &mut Report) {
    let case = format!("copy={:?} ops={:?}", state, ops);
    if let Some(rc) = replay_case() {
        if rc != case {
            return;
        }
    }
    r.evaluations += 1;
    let bytes = ack_bytes(ops);
    let decoded = no_panic(|| ChitchatMessage::deserialize(&mut &bytes[..]));
    let msg = match decoded {
        Err(p) => {
            r.fail(format!("decode-panic:{}", short(&p)), format!("decoding panicked: {p}"), case);
            return;
        }
        Ok(Err(_)) => return, // rejected cleanly
        Ok(Ok(m)) => m,
    };
    r.nontrivial += 1;
    if r.samples.len() < 2 {
        r.sample(case.clone());
    }
    let mut n = receiver_with_copy(state.0, state.1);
    let before: BTreeMap<ChitchatId, (u64, u64)> = n
        .node_states()
        .iter()
        .map(|(id, ns)| (id.clone(), ns.monotonic_property()))
        .collect();
    let res = no_panic(|| {
        n.process_message(msg);
    });
    if let Err(p) = res {
        r.fail(format!("process-panic:{}", short(&p)), format!("process_message panicked: {p}"), case);
        return;
    }
    for (id, ns) in n.node_states() {
        if let Some(b) = before.get(id) {
            if ns.monotonic_property() < *b {
                r.fail("frontier-regressed", format!("(gc,max) went from {:?} to {:?}", b, ns.monotonic_property()), case.clone());
            }
        }
        for (k, vv) in ns.key_values_including_deleted() {
            if vv.version > ns.max_version() {
                r.fail("version-above-max", format!("key {k} has version {} > max {}", vv.version, ns.max_version()), case.clone());
            }
        }
    }
}

fn short(p: &str) -> String {
    p.chars().filter(|c| c.is_ascii_alphanumeric() || *c == ' ').take(40).collect::<String>().replace(' ', "_")
}

#[test]
fn verif_c09_op_streams() {
    let maxlen = if tier_thorough() { 4 } else { 3 };
    let mut r = Report::new(
        "c09_op_streams",
        &format!("all op sequences of length <= {maxlen} over a 27-op alphabet (2 members, gc in {{0,2}}, from in {{0,1,3}}, 2 keys, versions 1..3, set/delete, SetMaxVersion in {{0,1,3}}) x receiver copy in {{(0,0),(0,2),(2,1),(3,3)}}"),
        true,
    );
    let alpha = op_alphabet();
    let states = [(0u64, 0u64), (0, 2), (2, 1), (3, 3)];
    let mut seq: Vec<Op> = Vec::new();
    fn rec(alpha: &[Op], seq: &mut Vec<Op>, maxlen: usize, states: &[(u64, u64)], r: &mut Report) {
        for st in states {
            check_stream(*st, seq, r);
        }
        if seq.len() == maxlen {
            return;
        }
        for op in alpha {
            // prune: a stream that does not start with a member header is rejected at once; keep
            // one representative of those per first op
            if seq.len() >= 1 && !matches!(seq[0], Op::Node(..)) {
                return;
            }
            seq.push(*op);
            rec(alpha, seq, maxlen, states, r);
            seq.pop();
        }
    }
    rec(&alpha, &mut seq, maxlen, &states, &mut r);
    r.emit();
}

// ------------------------------------------------------------------------------------------
// C18: external catch-up over the property's list of copies x supplied states.
fn vv(value: &str, version: u64, st: u8) -> VersionedValue {
    VersionedValue {
        value: value.to_string(),
        version,
        status: match st {
            0 => DeletionStatus::Set,
            1 => DeletionStatus::Deleted(tokio::time::Instant::now()),
            _ => DeletionStatus::DeleteAfterTtl(tokio::time::Instant::now()),
        },
    }
}

#[test]
fn verif_c18_catchup() {
    let mut r = Report::new(
        "c18_catchup",
        "copies {absent, empty, mid-reset (gc5,max3), collected (gc2,max3), ahead (0,9), behind (0,2) with keys a@1 b@2 (all set / b a tombstone / a TTL-marked), removed-and-remembered} x supplied key sets over {a,b,c} with versions in {1,4,7} and every status x max_version in {0,3,5,7,9} x last_gc in {0,2,5,8}",
        true,
    );
    let other = ChitchatId::for_local_test(2);
    let copies = ["absent", "empty", "midreset", "collected", "ahead", "behind", "behind_tombstone", "behind_ttl", "removed"];
    // supplied key sets
    let mut supplied: Vec<Vec<(String, u64, u8)>> = vec![vec![]];
    for ka in [None, Some((1u64, 0u8)), Some((4, 1)), Some((7, 2))] {
        for kb in [None, Some((4u64, 0u8)), Some((7, 0))] {
            for kc in [None, Some((1u64, 1u8))] {
                let mut s = Vec::new();
                if let Some((v, st)) = ka {
                    s.push(("a".to_string(), v, st));
                }
                if let Some((v, st)) = kb {
                    s.push(("b".to_string(), v, st));
                }
                if let Some((v, st)) = kc {
                    s.push(("c".to_string(), v, st));
                }
                if !s.is_empty() {
                    supplied.push(s);
                }
            }
        }
    }
    for copy in copies {
        for sup in &supplied {
            for maxv in [0u64, 3, 5, 7, 9] {
                for gcv in [0u64, 2, 5, 8] {
                    let case = format!("copy={copy} supplied={:?} max_version={maxv} last_gc_version={gcv}", sup);
                    if let Some(rc) = replay_case() {
                        if rc != case {
                            continue;
                        }
                    }
                    r.evaluations += 1;
                    let mut n = mk(1);
                    match copy {
                        "absent" => {}
                        "empty" => {
                            n.cluster_state.node_state_mut_or_init(&other);
                        }
                        "midreset" => {
                            let ns = n.cluster_state.node_state_mut_or_init(&other);
                            ns.set_versioned_value("a".to_string(), vv("x", 3, 0));
                            ns.set_last_gc_version(5);
                        }
                        "collected" => {
                            // not mid-reset, but with a non-zero watermark (it has collected tombstones)
                            let ns = n.cluster_state.node_state_mut_or_init(&other);
                            ns.set_versioned_value("a".to_string(), vv("x", 3, 0));
                            ns.set_last_gc_version(2);
                        }
                        "ahead" => {
                            let ns = n.cluster_state.node_state_mut_or_init(&other);
                            ns.set_versioned_value("a".to_string(), vv("x", 9, 0));
                        }
                        "behind" | "behind_tombstone" | "behind_ttl" => {
                            let ns = n.cluster_state.node_state_mut_or_init(&other);
                            ns.set_versioned_value("a".to_string(), vv("x", 1, if copy == "behind_ttl" { 2 } else { 0 }));
                            ns.set_versioned_value("b".to_string(), vv(if copy == "behind_tombstone" { "" } else { "y" }, 2, if copy == "behind_tombstone" { 1 } else { 0 }));
                        }
                        _ => {
                            n.cluster_state.node_state_mut_or_init(&other);
                            n.cluster_state.remove_node(&other);
                        }
                    }
                    let before = n.node_state(&other).map(|ns| {
                        (
                            ns.monotonic_property(),
                            ns.key_values_including_deleted().map(|(k, v)| (k.to_string(), v.version)).collect::<Vec<_>>(),
                        )
                    });
                    let live_before: Vec<ChitchatId> = n.live_nodes().cloned().collect();
                    let kvs: Vec<(String, VersionedValue)> = sup.iter().map(|(k, v, st)| (k.clone(), vv("new", *v, *st))).collect();
                    let res = no_panic(|| n.reset_node_state_if_update(&other, kvs.into_iter(), maxv, gcv));
                    if let Err(p) = res {
                        r.fail(format!("panic:{}", short(&p)), format!("reset_node_state_if_update panicked: {p}"), case);
                        continue;
                    }
                    r.nontrivial += 1;
                    if r.samples.len() < 2 {
                        r.sample(case.clone());
                    }
                    let after = n.node_state(&other).map(|ns| {
                        (
                            ns.monotonic_property(),
                            ns.key_values_including_deleted().map(|(k, v)| (k.to_string(), v.version)).collect::<Vec<_>>(),
                        )
                    });
                    if copy == "removed" && after.is_some() {
                        r.fail("recreated-gc-member", "a garbage collected member was recreated", case.clone());
                    }
                    let zero = ((0u64, 0u64), Vec::new());
                    let b = before.clone().unwrap_or(zero.clone());
                    if let Some(a) = &after {
                        if a.0 < b.0 {
                            r.fail("frontier-lowered", format!("(gc,max) lowered from {:?} to {:?}", b.0, a.0), case.clone());
                        }
                        if a.1 != b.1 || a.0 != b.0 {
                            // changed: key set must be the supplied one, newer version kept
                            let mut want: Vec<(String, u64)> = sup
                                .iter()
                                .map(|(k, v, _)| {
                                    let old = b.1.iter().find(|(bk, _)| bk == k).map(|(_, bv)| *bv).unwrap_or(0);
                                    (k.clone(), (*v).max(old))
                                })
                                .collect();
                            want.sort();
                            let mut got = a.1.clone();
                            got.sort();
                            if got != want {
                                r.fail("wrong-key-set", format!("keys after = {:?}, expected {:?}", got, want), case.clone());
                            }
                        }
                    }
                    let live_after: Vec<ChitchatId> = n.live_nodes().cloned().collect();
                    if live_after != live_before {
                        r.fail("made-live", "catch-up changed the live set", case.clone());
                    }
                }
            }
        }
    }
    r.emit();
}

// ------------------------------------------------------------------------------------------
// C07 size: SYN-ACK / ACK built when the own digest leaves 100..220 bytes of room, with a
// near-incompressible 7-bit value sized to fill the budget exactly.
fn noise(rng: &mut Rng64, n: usize) -> String {
    (0..n).map(|_| (33 + rng.below(94) as u8) as char).collect()
}

#[test]
fn verif_c07_reply_size() {
    let mut r = Report::new(
        "c07_reply_size",
        "40 members; own digest sized so that the delta budget is every value in 100..=220; one member with one value of every length budget-70..=budget-55 (near-incompressible 7-bit content); SYN-ACK and ACK lengths vs 65,507",
        true,
    );
    let mut rng = Rng64(seed() ^ 0xC07);
    let step = if tier_thorough() { 1 } else { 7 };
    let mut filler = 1400usize;
    while filler < 1700 {
        let mut b = mk(1);
        for i in 0..39u16 {
            let width = if i == 38 { filler } else { 1632 };
            let id = ChitchatId::new(format!("{:0>width$}", i, width = width), 0, ([127, 0, 0, 1], 1000 + i).into());
            b.cluster_state.node_state_mut_or_init(&id);
        }
        let rid = noise(&mut rng, 10);
        let id = ChitchatId::new(rid, 0, ([127, 0, 0, 1], 999).into());
        b.cluster_state.node_state_mut_or_init(&id);
        let own_digest_len = b.compute_digest(&HashSet::new()).serialized_len();
        filler += step;
        if own_digest_len + 104 > MAX_UDP_DATAGRAM_PAYLOAD_SIZE {
            continue;
        }
        let room = MAX_UDP_DATAGRAM_PAYLOAD_SIZE - own_digest_len;
        if room > 224 {
            continue;
        }
        for slack in 55..=70usize {
            if room < slack + 10 {
                continue;
            }
            let vlen = room - slack;
            let case = format!("own_digest_len={own_digest_len} room={room} value_len={vlen}");
            if let Some(rc) = replay_case() {
                if rc != case {
                    continue;
                }
            }
            {
                let ns = b.cluster_state.node_state_mut_or_init(&id);
                let val = noise(&mut rng, vlen);
                ns.set("k", val);
            }
            r.evaluations += 1;
            let syn = ChitchatMessage::Syn {
                cluster_id: "default-cluster".to_string(),
                digest: Digest::default(),
            };
            let reply = match no_panic(|| b.process_message(syn)) {
                Ok(Some(m)) => m,
                Ok(None) => continue,
                Err(p) => {
                    r.fail(format!("panic:{}", short(&p)), format!("process_message(Syn) panicked: {p}"), case);
                    continue;
                }
            };
            let bytes = reply.serialize_to_vec();
            let carried = matches!(&reply, ChitchatMessage::SynAck { delta, .. } if delta.node_deltas.iter().any(|nd| !nd.key_values.is_empty()));
            if carried {
                r.nontrivial += 1;
                if r.samples.len() < 2 {
                    r.sample(format!("{case} -> reply of {} bytes", bytes.len()));
                }
            }
            if bytes.len() != reply.serialized_len() {
                r.fail("announced-len", format!("announced {} != written {}", reply.serialized_len(), bytes.len()), case.clone());
            }
            if bytes.len() > MAX_UDP_DATAGRAM_PAYLOAD_SIZE {
                r.fail("synack-too-long", format!("SYN-ACK is {} bytes > 65,507", bytes.len()), case.clone());
            }
        }
    }
    r.emit();
}

// ------------------------------------------------------------------------------------------
// C02: the KF-1 history (truncated reset, then a stale relay) replayed against the real code.
pub(crate) fn hs(x: &mut Chitchat, y: &mut Chitchat) {
    let syn = x.create_syn_message();
    let synack = y.process_message(syn).unwrap();
    let ack = x.process_message(synack).unwrap();
    assert!(y.process_message(ack).is_none());
}

#[test]
fn verif_c02_kf1_history() {
    let mut r = Report::new(
        "c02_kf1_history",
        "one history: owner A sets j(60kB),k; B syncs; A sets m(60kB), deletes k, GCs; new node C is reset by A with an MTU-truncated delta, then the stale B relays k, then C catches up with A",
        true,
    );
    let mut rng = Rng64(0xF1);
    let mut a = mk(1);
    let mut b = mk(2);
    let mut c = mk(3);
    a.config.marked_for_deletion_grace_period = Duration::from_secs(0);
    let big_a = noise(&mut rng, 60_000);
    let big_b = noise(&mut rng, 60_000);
    a.self_node_state().set("j", &big_a); // v1
    a.self_node_state().set("k", "old"); // v2
    hs(&mut b, &mut a);
    hs(&mut b, &mut a);
    let aid = a.self_chitchat_id().clone();
    a.self_node_state().set("m", &big_b); // v3
    a.self_node_state().delete("k"); // v4
    a.gc_keys_marked_for_deletion(); // A: gc=4 max=4
    hs(&mut c, &mut a); // C reset, truncated by MTU
    hs(&mut c, &mut b); // stale B relays k@2
    for _ in 0..5 {
        hs(&mut c, &mut a);
    }
    r.evaluations = 1;
    r.nontrivial = 1;
    let n = c.node_state(&aid).unwrap();
    let desc = format!("C's copy of A: gc={} max={} k={:?}", n.last_gc_version(), n.max_version(), n.get("k"));
    r.sample(desc.clone());
    if n.max_version() >= 4 && n.get("k").is_some() {
        r.fail("kf1-truncated-reset-then-stale-relay", format!("deleted key resurrected ({desc})"), "KF-1 history");
    }
    r.emit();
}

// ------------------------------------------------------------------------------------------
// C20: the catch-up callback is invoked exactly once per message that reset >= 1 copy, never
// otherwise (call site Chitchat::process_delta, 8 lines around a Box<dyn Fn()>).
use std::sync::atomic::{AtomicUsize, Ordering};
use std::sync::Arc;

fn mk_counting(port: u16) -> (Chitchat, Arc<AtomicUsize>) {
    let mut config = ChitchatConfig::for_test(port);
    let counter = Arc::new(AtomicUsize::new(0));
    let c2 = counter.clone();
    config.catchup_callback = Some(Box::new(move || {
        c2.fetch_add(1, Ordering::SeqCst);
    }));
    let (_tx, rx) = watch::channel(Default::default());
    (Chitchat::with_chitchat_id_and_seeds(config, rx, Vec::new()), counter)
}

#[test]
fn verif_c20_callback() {
    let mut r = Report::new(
        "c20_callback",
        "receiver copies of 2 members each in {absent, (0,0), (0,2), (3,1)} x per-member delta in {none, incremental, reset (gc5, from 0), reset with no key-values, stale (from beyond the copy)} x message in {Ack, SynAck whose digest announces both members}; counting callback installed through ChitchatConfig::catchup_callback",
        true,
    );
    let copies: [Option<(u64, u64)>; 4] = [None, Some((0, 0)), Some((0, 2)), Some((3, 1))];
    let kinds = ["none", "incremental", "reset", "reset-empty", "stale"];
    for c0 in 0..4 {
        for c1 in 0..4 {
            for k0 in 0..kinds.len() {
                for k1 in 0..kinds.len() {
                    for synack in [false, true] {
                        let case = format!("copies=({:?},{:?}) deltas=({},{}) message={}", copies[c0], copies[c1], kinds[k0], kinds[k1], if synack { "SynAck" } else { "Ack" });
                        if let Some(rc) = replay_case() {
                            if rc != case {
                                continue;
                            }
                        }
                        r.evaluations += 1;
                        let (mut n, counter) = mk_counting(1);
                        let ids = [member(0), member(1)];
                        for (i, c) in [copies[c0], copies[c1]].iter().enumerate() {
                            if let Some((g, m)) = c {
                                let ns = n.cluster_state.node_state_mut_or_init(&ids[i]);
                                if *m > 0 {
                                    ns.set_versioned_value("a".to_string(), VersionedValue::for_test("old", *m));
                                }
                                ns.set_last_gc_version(*g);
                            }
                        }
                        let mut delta = Delta::default();
                        let mut expect_reset = false;
                        for (i, k) in [k0, k1].iter().enumerate() {
                            let known_before = [copies[c0], copies[c1]][i];
                            // a SynAck's digest makes an absent member known (fresh copy at (0,0))
                            let copy = if synack { Some(known_before.unwrap_or((0, 0))) } else { known_before };
                            let (g, m) = copy.unwrap_or((0, 0));
                            match kinds[*k] {
                                "none" => {}
                                "incremental" => {
                                    delta.add_node(ids[i].clone(), 0, m);
                                    delta.add_kv(&ids[i], "n", "v", m + 1, false);
                                }
                                "reset" => {
                                    delta.add_node(ids[i].clone(), 5, 0);
                                    delta.add_kv(&ids[i], "n", "v", 6, false);
                                    if copy.is_some() && g < 5 && m < 5 {
                                        expect_reset = true;
                                    }
                                }
                                "reset-empty" => {
                                    delta.add_node(ids[i].clone(), 5, 0);
                                    if copy.is_some() && g < 5 && m < 5 {
                                        expect_reset = true;
                                    }
                                }
                                _ => {
                                    delta.add_node(ids[i].clone(), 9, m + 3);
                                    delta.add_kv(&ids[i], "n", "v", m + 4, false);
                                }
                            }
                        }
                        let msg = if synack {
                            let mut digest = Digest::default();
                            digest.add_node(ids[0].clone(), Heartbeat(3), 0, 0);
                            digest.add_node(ids[1].clone(), Heartbeat(3), 0, 0);
                            ChitchatMessage::SynAck { digest, delta }
                        } else {
                            ChitchatMessage::Ack { delta }
                        };
                        if let Err(p) = no_panic(|| {
                            n.process_message(msg);
                        }) {
                            r.fail(format!("panic:{}", short(&p)), format!("process_message panicked: {p}"), case);
                            continue;
                        }
                        let got = counter.load(Ordering::SeqCst);
                        if expect_reset {
                            r.nontrivial += 1;
                            if r.samples.len() < 2 {
                                r.sample(case.clone());
                            }
                        }
                        if got != expect_reset as usize {
                            r.fail("callback-count", format!("callback invoked {got} time(s), expected {}", expect_reset as usize), case);
                        }
                    }
                }
            }
        }
    }
    r.emit();
}

// ------------------------------------------------------------------------------------------
// C05: no message from an honest peer (its copy of the owner is never ahead of the owner) changes
// the owner's own key-values, versions, watermark; the heartbeat only moves by the owner's own
// activity (+1 per processed message).
#[test]
fn verif_c05_owner() {
    let mut r = Report::new(
        "c05_owner",
        "owner with 3 keys (one tombstone), versions up to 4, watermark in {0,2}; every Syn / SynAck / Ack whose digest names the owner with heartbeat in {0, 1, 1000, 5000} (the owner's own is about 2500) and frontier <= the owner's, and whose delta about the owner has watermark <= owner max, max version <= owner max, from in 0..=4, 0..2 key-values (possibly conflicting values)",
        true,
    );
    for own_gc in [0u64, 2] {
        // digest heartbeats: 0, 1, far below the owner's (the owner has beaten 2500 times), far above
        for dhb in [0u64, 1, 1000, 5000] {
            for from in 0..=4u64 {
                for dgc in 0..=4u64 {
                    for dmax in 0..=4u64 {
                        for nkv in 0..=2usize {
                            for kind in 0..3 {
                                let case = format!("own_gc={own_gc} digest_hb={dhb} delta=(from{from},gc{dgc},max{dmax},{nkv} kvs) message={}", ["Syn", "SynAck", "Ack"][kind]);
                                if let Some(rc) = replay_case() {
                                    if rc != case {
                                        continue;
                                    }
                                }
                                if nkv as u64 > dmax {
                                    continue;
                                }
                                r.evaluations += 1;
                                let mut n = mk(1);
                                let me = n.self_chitchat_id().clone();
                                {
                                    let ns = n.self_node_state();
                                    ns.set("a", "1");
                                    ns.set("b", "2");
                                    ns.set("c", "3");
                                    ns.delete("b");
                                    ns.set_last_gc_version(own_gc);
                                    // a long-lived owner: peers' copies of its heartbeat may lag by thousands
                                    for _ in 0..2500 {
                                        ns.inc_heartbeat();
                                    }
                                }
                                let snapshot = |n: &Chitchat| {
                                    let ns = n.node_state(&me).unwrap();
                                    (
                                        ns.last_gc_version(),
                                        ns.max_version(),
                                        ns.key_values_including_deleted().map(|(k, v)| (k.to_string(), v.value.clone(), v.version, v.is_deleted())).collect::<Vec<_>>(),
                                    )
                                };
                                let before = snapshot(&n);
                                let hb_before = n.node_state(&me).unwrap().heartbeat();
                                let mut digest = Digest::default();
                                digest.add_node(me.clone(), Heartbeat(dhb), dgc.min(4), dmax);
                                digest.add_node(member(1), Heartbeat(2), 0, 0);
                                // another incarnation of the local node (same node id and address, other
                                // generation), as a peer that knew the node before a restart relays it
                                let mut other_incarnation = me.clone();
                                other_incarnation.generation_id = me.generation_id + 1 + (dhb % 2);
                                digest.add_node(other_incarnation, Heartbeat(3), 0, 0);
                                let mut delta = Delta::default();
                                delta.add_node(me.clone(), dgc, from);
                                for i in 0..nkv {
                                    let v = dmax + 1 - (nkv - i) as u64;
                                    if v >= 1 {
                                        delta.add_kv(&me, ["a", "b"][i], "forged", v, i == 1);
                                    }
                                }
                                if nkv == 0 {
                                    delta.node_deltas[0].max_version = dmax;
                                }
                                let msg = match kind {
                                    0 => ChitchatMessage::Syn { cluster_id: "default-cluster".to_string(), digest },
                                    1 => ChitchatMessage::SynAck { digest, delta },
                                    _ => ChitchatMessage::Ack { delta },
                                };
                                if let Err(p) = no_panic(|| {
                                    n.process_message(msg);
                                }) {
                                    r.fail(format!("panic:{}", short(&p)), format!("process_message panicked: {p}"), case);
                                    continue;
                                }
                                r.nontrivial += 1;
                                if r.samples.len() < 2 && nkv > 0 {
                                    r.sample(case.clone());
                                }
                                if n.node_state(&me).is_none() {
                                    r.fail("own-state-removed", "the local node's own state is gone after the message".to_string(), case.clone());
                                    continue;
                                }
                                let after = snapshot(&n);
                                if after != before {
                                    r.fail("own-namespace-changed", format!("owner state {:?} -> {:?}", before, after), case.clone());
                                }
                                let hb_after = n.node_state(&me).unwrap().heartbeat();
                                if u64::from(hb_after) != u64::from(hb_before) + 1 {
                                    r.fail("own-heartbeat", format!("owner heartbeat {:?} -> {:?} (expected +1 by its own activity)", hb_before, hb_after), case.clone());
                                }
                            }
                        }
                    }
                }
            }
        }
    }
    // ---- honest echo: whatever the owner wrote (every local operation kind), a peer that synced
    // from it never holds a more advanced copy, and further handshakes never change the owner
    let ops = ["set", "set_with_ttl", "delete", "delete_after_ttl"];
    let mut seqs: Vec<Vec<usize>> = vec![vec![]];
    for len in 1..=3 {
        let mut next = Vec::new();
        for sq in seqs.iter().filter(|s| s.len() == len - 1) {
            for o in 0..ops.len() {
                let mut t = sq.clone();
                t.push(o);
                next.push(t);
            }
        }
        seqs.extend(next);
    }
    for sq in &seqs {
        let case = format!("honest echo after owner ops {:?}", sq.iter().map(|o| ops[*o]).collect::<Vec<_>>());
        if let Some(rc) = replay_case() {
            if rc != case {
                continue;
            }
        }
        r.evaluations += 1;
        let mut a = mk(1);
        let mut b = mk(2);
        let me = a.self_chitchat_id().clone();
        a.self_node_state().set("k", "v0");
        for (i, o) in sq.iter().enumerate() {
            let ns = a.self_node_state();
            match ops[*o] {
                "set" => ns.set("k", format!("v{}", i + 1)),
                "set_with_ttl" => ns.set_with_ttl("k", format!("t{}", i + 1)),
                "delete" => ns.delete("k"),
                _ => ns.delete_after_ttl("k"),
            }
        }
        let snapshot = |n: &Chitchat| {
            let ns = n.node_state(&me).unwrap();
            (
                ns.last_gc_version(),
                ns.max_version(),
                ns.key_values_including_deleted().map(|(k, v)| (k.to_string(), v.value.clone(), v.version, v.is_deleted())).collect::<Vec<_>>(),
            )
        };
        // the owner's namespace as its local API left it, before any gossip
        let before = snapshot(&a);
        hs(&mut b, &mut a);
        hs(&mut b, &mut a);
        if let Some(copy) = b.node_state(&me) {
            if copy.max_version() > before.1 {
                r.fail("copy-ahead-of-owner", format!("the peer's copy has max version {} > the owner's {}", copy.max_version(), before.1), case.clone());
            }
            for (k, vv) in copy.key_values_including_deleted() {
                if vv.version > before.1 {
                    r.fail("copy-ahead-of-owner", format!("the peer holds {k}@{} beyond the owner's max version {}", vv.version, before.1), case.clone());
                }
            }
        }
        r.nontrivial += 1;
        hs(&mut b, &mut a);
        hs(&mut a, &mut b);
        hs(&mut b, &mut a);
        let after = snapshot(&a);
        if after != before {
            r.fail("own-namespace-changed-by-echo", format!("owner state {:?} -> {:?}", before, after), case.clone());
        }
    }
    r.emit();
}

// ------------------------------------------------------------------------------------------
// C09: byte-level hostility - truncations, bit flips and random strings around valid messages.
fn sample_messages() -> Vec<(&'static str, Vec<u8>)> {
    let mut out = Vec::new();
    let mut digest = Digest::default();
    digest.add_node(member(0), Heartbeat(3), 1, 4);
    digest.add_node(ChitchatId::new("é🦀".to_string(), 7, "[::1]:8080".parse().unwrap()), Heartbeat(9), 0, 2);
    let mk_delta = || {
        let mut delta = Delta::default();
        delta.add_node(member(0), 0, 0);
        delta.add_kv(&member(0), "a", "value-a", 1, false);
        delta.add_kv(&member(0), "é", "", 2, true);
        delta.add_node(member(1), 3, 0);
        let mut bytes = Vec::new();
        // compute the announced length with the real serializer
        let mut w = CompressedStreamWriter::with_block_threshold(16_384);
        let mut raw = Vec::new();
        for nd in &delta.node_deltas {
            raw.push(0u8);
            nd.chitchat_id.serialize(&mut raw);
            nd.last_gc_version.serialize(&mut raw);
            nd.from_version_excluded.serialize(&mut raw);
            for kv in &nd.key_values {
                raw.push(1u8);
                kv.key.serialize(&mut raw);
                kv.value.serialize(&mut raw);
                kv.version.serialize(&mut raw);
                raw.push(u8::from(kv.status));
            }
        }
        w.append(&Raw(raw));
        bytes.extend(w.finish());
        delta.set_serialized_len(bytes.len());
        delta
    };
    let syn = ChitchatMessage::Syn { cluster_id: "default-cluster".to_string(), digest };
    out.push(("Syn", syn.serialize_to_vec()));
    let mut digest2 = Digest::default();
    digest2.add_node(member(1), Heartbeat(5), 0, 0);
    let synack = ChitchatMessage::SynAck { digest: digest2, delta: mk_delta() };
    out.push(("SynAck", synack.serialize_to_vec()));
    let ack = ChitchatMessage::Ack { delta: mk_delta() };
    out.push(("Ack", ack.serialize_to_vec()));
    out.push(("BadCluster", ChitchatMessage::BadCluster.serialize_to_vec()));
    out
}

fn deliver(bytes: &[u8], r: &mut Report, case: String) {
    if let Some(rc) = replay_case() {
        if rc != case {
            return;
        }
    }
    r.evaluations += 1;
    let msg = match no_panic(|| ChitchatMessage::deserialize(&mut &bytes[..])) {
        Err(p) => {
            r.fail(format!("decode-panic:{}", short(&p)), format!("decoding panicked: {p}"), case);
            return;
        }
        Ok(Err(_)) => return,
        Ok(Ok(m)) => m,
    };
    #[allow(irrefutable_let_patterns)]
    if let ChitchatMessage::PanicForTest = msg {
        return; // test-only variant (cfg(test)), not part of the wire format in production builds
    }
    r.nontrivial += 1;
    let mut n = receiver_with_copy(0, 2);
    let before: BTreeMap<ChitchatId, (u64, u64)> = n.node_states().iter().map(|(id, ns)| (id.clone(), ns.monotonic_property())).collect();
    if let Err(p) = no_panic(|| {
        n.process_message(msg);
    }) {
        r.fail(format!("process-panic:{}", short(&p)), format!("process_message panicked: {p}"), case);
        return;
    }
    for (id, ns) in n.node_states() {
        if let Some(b) = before.get(id) {
            if ns.monotonic_property() < *b {
                r.fail("frontier-regressed", format!("(gc,max) {:?} -> {:?}", b, ns.monotonic_property()), case.clone());
            }
        }
    }
    let live: HashSet<&ChitchatId> = n.live_nodes().collect();
    if n.dead_nodes().any(|d| live.contains(d)) {
        r.fail("live-dead-overlap", "a member is both live and dead".to_string(), case);
    }
}

#[test]
fn verif_c09_bytes() {
    let nrand = if tier_thorough() { 200_000 } else { 20_000 };
    let mut r = Report::new(
        "c09_bytes",
        &format!("4 valid messages (Syn with IPv6 + multi-byte id, SynAck, Ack, BadCluster): every truncation, every single-bit flip, every single-byte replacement by 0x00/0xff/0x7f; plus {nrand} seeded random strings of length 0..48 behind a valid header"),
        true,
    );
    let msgs = sample_messages();
    for (name, bytes) in &msgs {
        if r.samples.len() < 2 {
            r.sample(format!("{name}: {} bytes", bytes.len()));
        }
        deliver(bytes, &mut r, format!("{name} unchanged"));
        for cut in 0..bytes.len() {
            deliver(&bytes[..cut], &mut r, format!("{name} truncated to {cut}"));
        }
        for i in 0..bytes.len() {
            for bit in 0..8 {
                let mut b = bytes.clone();
                b[i] ^= 1 << bit;
                deliver(&b, &mut r, format!("{name} bit {bit} of byte {i} flipped"));
            }
            for v in [0u8, 0xff, 0x7f] {
                let mut b = bytes.clone();
                b[i] = v;
                deliver(&b, &mut r, format!("{name} byte {i} set to {v}"));
            }
        }
    }
    let mut rng = Rng64(seed() ^ 0xC09);
    for k in 0..nrand {
        let len = rng.below(49) as usize;
        let mut b = vec![0x53u8, 0xb0, 0, (rng.below(4)) as u8];
        for _ in 0..len {
            // bias towards small values so that lengths / tags are often plausible
            let x = rng.next();
            b.push(if x & 3 == 0 { (x >> 8) as u8 } else { ((x >> 8) % 6) as u8 });
        }
        deliver(&b, &mut r, format!("random #{k} {:?}", b));
    }
    r.emit();
}

// ------------------------------------------------------------------------------------------
// C12: quarantine at grace/2, removal at grace, re-creation only by a strictly higher heartbeat.
fn mk_grace(port: u16, grace_ms: u64) -> Chitchat {
    let mut config = ChitchatConfig::for_test(port);
    config.failure_detector_config.dead_node_grace_period = Duration::from_millis(grace_ms);
    let (_tx, rx) = watch::channel(Default::default());
    Chitchat::with_chitchat_id_and_seeds(config, rx, Vec::new())
}

fn mentions_in(msg: &ChitchatMessage, id: &ChitchatId) -> bool {
    match msg {
        ChitchatMessage::Syn { digest, .. } => digest.node_digests.contains_key(id),
        ChitchatMessage::SynAck { digest, delta } => digest.node_digests.contains_key(id) || delta.node_deltas.iter().any(|nd| &nd.chitchat_id == id),
        ChitchatMessage::Ack { delta } => delta.node_deltas.iter().any(|nd| &nd.chitchat_id == id),
        _ => false,
    }
}

fn classification_ok(n: &Chitchat, r: &mut Report, case: &str, when: &str) {
    let live: HashSet<ChitchatId> = n.live_nodes().cloned().collect();
    let dead: HashSet<ChitchatId> = n.dead_nodes().cloned().collect();
    if live.intersection(&dead).next().is_some() {
        r.fail("live-dead-overlap", format!("{when}: a member is both live and dead"), case);
    }
    if !live.contains(n.self_chitchat_id()) {
        r.fail("self-not-live", format!("{when}: the local node is not live"), case);
    }
    if !n.node_states().contains_key(n.self_chitchat_id()) {
        r.fail("self-removed", format!("{when}: the local node's state was removed"), case);
    }
    for id in n.node_states().keys() {
        if id != n.self_chitchat_id() && live.contains(id) == dead.contains(id) {
            r.fail("not-classified", format!("{when}: member {:?} is in {} sets", id, if live.contains(id) { "both" } else { "neither of the" }), case);
        }
    }
}

#[tokio::test(start_paused = true)]
async fn verif_c12_timeline() {
    let grace_ms: u64 = 100_000;
    let mut r = Report::new(
        "c12_timeline",
        "local node + peer P (made live by 3 fresh heartbeats 1 s apart, with 2 key-values or with none) + witness W; P falls silent; evaluations every 1 s until dead; then clock offsets from the time of death in {grace/2 - 1ms, grace/2, grace/2 + 1ms, grace - 1ms, grace, grace + 1ms}; at each offset every outgoing Syn / SynAck / Ack is decoded and inspected; after removal, digests carrying P with heartbeat in {known - 1, known, known + 1}",
        true,
    );
    for with_kvs in [true, false] {
    for offset_sel in 0..6usize {
        for relearn_hb_delta in [-1i64, 0, 1] {
            let offsets = [grace_ms / 2 - 1, grace_ms / 2, grace_ms / 2 + 1, grace_ms - 1, grace_ms, grace_ms + 1];
            let off = offsets[offset_sel];
            let case = if with_kvs {
                format!("offset_from_death_ms={off} relearn_heartbeat_delta={relearn_hb_delta}")
            } else {
                format!("offset_from_death_ms={off} relearn_heartbeat_delta={relearn_hb_delta} member_without_key_values")
            };
            if let Some(rc) = replay_case() {
                if rc != case {
                    continue;
                }
            }
            r.evaluations += 1;
            let mut n = mk_grace(1, grace_ms);
            let p = member(0);
            let w = member(1);
            // P becomes known and live: three digests with increasing heartbeats, 1 s apart
            let mut hb = 10u64;
            for _ in 0..3 {
                let mut d = Digest::default();
                d.add_node(p.clone(), Heartbeat(hb), 0, 0);
                d.add_node(w.clone(), Heartbeat(hb), 0, 0);
                n.process_message(ChitchatMessage::Syn { cluster_id: "default-cluster".to_string(), digest: d });
                hb += 1;
                tokio::time::advance(Duration::from_millis(1000)).await;
                n.update_nodes_liveness();
            }
            if with_kvs {
                let ns = n.cluster_state.node_state_mut_or_init(&p);
                ns.set_versioned_value("k1".to_string(), VersionedValue::for_test("v1", 1));
                ns.set_versioned_value("k2".to_string(), VersionedValue::for_test("v2", 2));
            }
            classification_ok(&n, &mut r, &case, "after warm-up");
            if !n.live_nodes().any(|x| *x == p) {
                r.fail("warmup-not-live", "P is not live after three fresh heartbeats".to_string(), case.clone());
                continue;
            }
            // silence: W keeps heartbeating, P does not
            let mut death_ms: Option<u64> = None;
            let mut t = 0u64;
            while death_ms.is_none() && t < 200_000 {
                tokio::time::advance(Duration::from_millis(1000)).await;
                t += 1000;
                let mut d = Digest::default();
                d.add_node(w.clone(), Heartbeat(hb), 0, 0);
                d.add_node(p.clone(), Heartbeat(12), 0, 0); // stale relay of P's last heartbeat
                hb += 1;
                n.process_message(ChitchatMessage::Syn { cluster_id: "default-cluster".to_string(), digest: d });
                n.update_nodes_liveness();
                classification_ok(&n, &mut r, &case, "during silence");
                if n.dead_nodes().any(|x| *x == p) {
                    death_ms = Some(t);
                }
            }
            let Some(_) = death_ms else {
                r.fail("never-dead", "P never reported dead after 200 s of silence (stale heartbeats relayed)".to_string(), case.clone());
                continue;
            };
            r.nontrivial += 1;
            if r.samples.len() < 2 {
                r.sample(case.clone());
            }
            tokio::time::advance(Duration::from_millis(off)).await;
            // what the node sends now
            let past_half = off > grace_ms / 2;
            let syn = n.create_syn_message();
            let synack = n.process_message(ChitchatMessage::Syn { cluster_id: "default-cluster".to_string(), digest: Digest::default() }).unwrap();
            let ack = n
                .process_message(ChitchatMessage::SynAck { digest: Digest::default(), delta: Delta::default() })
                .unwrap();
            // the same SYN from a peer that still lists P in its digest (it flagged P dead later, or not
            // yet): stale heartbeat, nothing known about P's key-values
            let mut d_with_p = Digest::default();
            d_with_p.add_node(p.clone(), Heartbeat(12), 0, 0);
            let synack_p = n.process_message(ChitchatMessage::Syn { cluster_id: "default-cluster".to_string(), digest: d_with_p }).unwrap();
            for (name, m) in [("Syn", &syn), ("SynAck", &synack), ("Ack", &ack), ("SynAck to a peer listing the member", &synack_p)] {
                let bytes = m.serialize_to_vec();
                let decoded = ChitchatMessage::deserialize(&mut &bytes[..]).expect("own message decodes");
                let mentioned = mentions_in(&decoded, &p);
                if past_half && mentioned {
                    r.fail("quarantine", format!("{name} sent {off} ms after death (> grace/2) still mentions the dead member"), case.clone());
                }
                // a member that never published anything has nothing to put into a delta
                if !past_half && !mentioned && (with_kvs || name != "Ack") {
                    r.fail("premature-quarantine", format!("{name} sent {off} ms after death (<= grace/2) no longer mentions the dead member"), case.clone());
                }
            }
            // evaluation: removal exactly from grace on
            let known_hb = n.node_state(&p).map(|ns| u64::from(ns.heartbeat())).unwrap_or(0);
            n.update_nodes_liveness();
            classification_ok(&n, &mut r, &case, "after evaluation");
            let removed = n.node_state(&p).is_none();
            if (off >= grace_ms) != removed {
                r.fail("removal-time", format!("{off} ms after death (grace {grace_ms}): removed={removed}"), case.clone());
            }
            if removed {
                if n.dead_nodes().any(|x| *x == p) || n.live_nodes().any(|x| *x == p) {
                    r.fail("removed-still-classified", "a removed member is still in the live or dead set".to_string(), case.clone());
                }
                let new_hb = (known_hb as i64 + relearn_hb_delta) as u64;
                let mut d = Digest::default();
                d.add_node(p.clone(), Heartbeat(new_hb), 0, if with_kvs { 2 } else { 0 });
                n.process_message(ChitchatMessage::Syn { cluster_id: "default-cluster".to_string(), digest: d });
                let recreated = n.node_state(&p).is_some();
                if recreated != (relearn_hb_delta > 0) {
                    r.fail("recreation-guard", format!("removed at heartbeat {known_hb}; digest with heartbeat {new_hb}: recreated={recreated}"), case.clone());
                }
                n.update_nodes_liveness();
                if n.live_nodes().any(|x| *x == p) {
                    r.fail("revived-without-evidence", "a re-created member is live right away".to_string(), case.clone());
                }
                classification_ok(&n, &mut r, &case, "after re-learning");
            }
        }
    }
    }
    r.emit();
}

// ------------------------------------------------------------------------------------------
// C16: two honest clusters with different ids sharing seeds never leak into each other.
#[test]
fn verif_c16_isolation() {
    let mut r = Report::new(
        "c16_isolation",
        "cluster ids pairs {('',x),('a','ab'),('Cluster','cluster'),('default-cluster','default-cluster2'),(x,x)}; clusters of 1..2 nodes each, every node of A gossips to every node of B and back (SYN delivered once, twice, or lost; replies delivered or lost), 3 rounds; node_states / live / dead of every node inspected after every delivery",
        true,
    );
    let id_pairs = [("", "x"), ("a", "ab"), ("Cluster", "cluster"), ("default-cluster", "default-cluster2"), ("same", "same")];
    for (ida, idb) in id_pairs {
        for na in 1..=2usize {
            for nb in 1..=2usize {
                for dup in 0..3u8 {
                    let case = format!("cluster_ids=({ida:?},{idb:?}) sizes=({na},{nb}) syn_delivery={}", ["once", "twice", "lost"][dup as usize]);
                    if let Some(rc) = replay_case() {
                        if rc != case {
                            continue;
                        }
                    }
                    r.evaluations += 1;
                    let mk_c = |port: u16, cid: &str| {
                        let mut config = ChitchatConfig::for_test(port);
                        config.cluster_id = cid.to_string();
                        let (_tx, rx) = watch::channel(Default::default());
                        let mut c = Chitchat::with_chitchat_id_and_seeds(config, rx, vec![("k".to_string(), format!("{cid}-{port}"))]);
                        c.self_node_state().set("owner", cid);
                        c
                    };
                    let mut a: Vec<Chitchat> = (0..na).map(|i| mk_c(100 + i as u16, ida)).collect();
                    let mut b: Vec<Chitchat> = (0..nb).map(|i| mk_c(200 + i as u16, idb)).collect();
                    // inside each cluster: one full handshake so that members know each other
                    if na == 2 {
                        let (x, y) = a.split_at_mut(1);
                        hs(&mut x[0], &mut y[0]);
                    }
                    if nb == 2 {
                        let (x, y) = b.split_at_mut(1);
                        hs(&mut x[0], &mut y[0]);
                    }
                    let same = ida == idb;
                    let ids_a: Vec<ChitchatId> = a.iter().map(|c| c.self_chitchat_id().clone()).collect();
                    let ids_b: Vec<ChitchatId> = b.iter().map(|c| c.self_chitchat_id().clone()).collect();
                    for _round in 0..3 {
                        for i in 0..na {
                            for j in 0..nb {
                                for dir in 0..2 {
                                    let (src, dst) = if dir == 0 { (&mut a[i], &mut b[j]) } else { (&mut b[j], &mut a[i]) };
                                    let syn = src.create_syn_message();
                                    let bytes = syn.serialize_to_vec();
                                    let deliveries = match dup {
                                        0 => 1,
                                        1 => 2,
                                        _ => 0,
                                    };
                                    for _ in 0..deliveries {
                                        let m = ChitchatMessage::deserialize(&mut &bytes[..]).unwrap();
                                        let reply = dst.process_message(m);
                                        if !same {
                                            if !matches!(reply, Some(ChitchatMessage::BadCluster)) {
                                                r.fail("not-rejected", format!("a SYN of cluster {ida:?}/{idb:?} was answered with {:?}", reply.as_ref().map(|m| std::mem::discriminant(m))), case.clone());
                                            }
                                        }
                                        if let Some(rep) = reply {
                                            let rb = rep.serialize_to_vec();
                                            let rm = ChitchatMessage::deserialize(&mut &rb[..]).unwrap();
                                            if let Some(ack) = src.process_message(rm) {
                                                let ab = ack.serialize_to_vec();
                                                let am = ChitchatMessage::deserialize(&mut &ab[..]).unwrap();
                                                dst.process_message(am);
                                            }
                                        }
                                    }
                                }
                            }
                        }
                        for c in a.iter_mut().chain(b.iter_mut()) {
                            c.update_nodes_liveness();
                        }
                        if !same {
                            for c in &a {
                                for idv in &ids_b {
                                    if c.node_state(idv).is_some() || c.live_nodes().any(|x| x == idv) || c.dead_nodes().any(|x| x == idv) {
                                        r.fail("leak", format!("a node of cluster {ida:?} knows member {:?} of cluster {idb:?}", idv), case.clone());
                                    }
                                }
                            }
                            for c in &b {
                                for idv in &ids_a {
                                    if c.node_state(idv).is_some() || c.live_nodes().any(|x| x == idv) || c.dead_nodes().any(|x| x == idv) {
                                        r.fail("leak", format!("a node of cluster {idb:?} knows member {:?} of cluster {ida:?}", idv), case.clone());
                                    }
                                }
                            }
                        }
                    }
                    if same && dup != 2 {
                        // control: with equal ids the clusters do merge (the harness is not vacuous)
                        if a[0].node_state(&ids_b[0]).is_some() {
                            r.nontrivial += 1;
                        } else {
                            r.fail("control-no-merge", "clusters with the same id did not learn about each other".to_string(), case.clone());
                        }
                    } else if !same {
                        r.nontrivial += 1;
                        if r.samples.len() < 2 {
                            r.sample(case.clone());
                        }
                    }
                }
            }
        }
    }
    r.emit();
}

// ------------------------------------------------------------------------------------------
// C13: after every liveness evaluation the watch channel lists exactly the live members that
// satisfy the extra predicate, each with its current max version; a change of the live set or of
// a live member's max version is published.
#[derive(Clone, Copy, Debug, PartialEq)]
enum WOp {
    /// clock + 1 s, then a digest with fresh heartbeats of P and Q
    Tick,
    /// clock + 60 s without any heartbeat (everybody known falls silent)
    Silence,
    /// clock + 60 s, then one fresh heartbeat of P only / of Q only (the other one is silent)
    SilenceButP,
    SilenceButQ,
    /// two fresh heartbeats 1 s apart of P / Q / a third member R (possibly unknown so far)
    ReviveP,
    ReviveQ,
    ReviveR,
    /// P's copy learns ready=1 at its next version
    SetReady,
    /// P's copy learns that `ready` expires (DeleteAfterTtl at its next version)
    TtlReady,
    /// P's copy learns that `ready` is deleted (tombstone at its next version)
    DelReady,
    /// P's copy learns an unrelated key at its next version
    SetOther,
    /// an ACK resets P's copy to a LOWER max version (delta from version 0 with a GC watermark
    /// above everything the copy knows, carrying one key-value at version 1)
    ResetLower,
    /// the local node writes a key of its own
    SelfSet,
    /// tombstone / TTL GC pass over every copy
    GcKeys,
    /// liveness evaluation
    Eval,
}

fn c13_node(with_pred: bool, kv_grace_ms: u64) -> Chitchat {
    let mut config = ChitchatConfig::for_test(1);
    config.failure_detector_config.dead_node_grace_period = Duration::from_millis(1_000_000);
    config.marked_for_deletion_grace_period = Duration::from_millis(kv_grace_ms);
    if with_pred {
        config.extra_liveness_predicate = Some(Box::new(|ns: &NodeState| ns.get("ready").is_some()));
    }
    let (_tx, rx) = watch::channel(Default::default());
    Chitchat::with_chitchat_id_and_seeds(config, rx, Vec::new())
}

async fn c13_run(seq: &[WOp], with_pred: bool, r: &mut Report) {
    let case = format!("extra_predicate={} ops={:?}", if with_pred { "has-key-ready" } else { "none" }, seq);
    if let Some(rc) = replay_case() {
        if rc != case {
            return;
        }
    }
    r.evaluations += 1;
    let mut n = c13_node(with_pred, 1_000);
    let p = member(0);
    let q = member(1);
    let me = n.self_chitchat_id().clone();
    let mut rx = n.live_nodes_watcher();
    let mut hb = 10u64;
    let pred = |ns: &NodeState| !with_pred || ns.get("ready").is_some();
    // what the previous evaluation saw: member -> max version of every live member
    let mut seen: Option<BTreeMap<ChitchatId, u64>> = None;
    let mut p_version = 0u64;
    let mut self_writes = 0u64;
    // warm-up (not part of the case text): P and Q become live
    // (it starts with an evaluation of the freshly built, isolated node: the channel must be right
    // before anybody else is known, whether or not the constructor pre-seeds it)
    let mut ops: Vec<WOp> = vec![WOp::Eval, WOp::Tick, WOp::Tick, WOp::Tick, WOp::Eval];
    ops.extend_from_slice(seq);
    for (i, op) in ops.iter().enumerate() {
        match *op {
            WOp::Tick | WOp::SilenceButP | WOp::SilenceButQ => {
                tokio::time::advance(Duration::from_millis(if *op == WOp::Tick { 1000 } else { 60_000 })).await;
                let mut d = Digest::default();
                if *op != WOp::SilenceButQ {
                    d.add_node(p.clone(), Heartbeat(hb), 0, 0);
                }
                if *op != WOp::SilenceButP {
                    d.add_node(q.clone(), Heartbeat(hb), 0, 0);
                }
                hb += 1;
                n.process_message(ChitchatMessage::Syn { cluster_id: "default-cluster".to_string(), digest: d });
            }
            WOp::ReviveP | WOp::ReviveQ | WOp::ReviveR => {
                let who = match *op {
                    WOp::ReviveP => p.clone(),
                    WOp::ReviveQ => q.clone(),
                    _ => member(2),
                };
                for k in 0..2 {
                    if k == 1 {
                        tokio::time::advance(Duration::from_millis(1000)).await;
                    }
                    let mut d = Digest::default();
                    d.add_node(who.clone(), Heartbeat(hb), 0, 0);
                    hb += 1;
                    n.process_message(ChitchatMessage::Syn { cluster_id: "default-cluster".to_string(), digest: d });
                }
            }
            WOp::Silence => {
                tokio::time::advance(Duration::from_millis(60_000)).await;
            }
            WOp::ResetLower => {
                let Some(ns) = n.node_state(&p) else { continue };
                let gc = ns.last_gc_version().max(ns.max_version()) + 1;
                let mut delta = Delta::default();
                delta.add_node(p.clone(), gc, 0);
                delta.add_kv(&p, "low", "x", 1, false);
                n.process_message(ChitchatMessage::Ack { delta });
                p_version = 1;
            }
            WOp::SetReady | WOp::TtlReady | WOp::DelReady | WOp::SetOther => {
                if n.node_state(&p).is_none() {
                    continue;
                }
                p_version += 1;
                let (key, status) = match *op {
                    WOp::SetReady => ("ready", DeletionStatus::Set),
                    WOp::TtlReady => ("ready", DeletionStatus::DeleteAfterTtl(tokio::time::Instant::now())),
                    WOp::DelReady => ("ready", DeletionStatus::Deleted(tokio::time::Instant::now())),
                    _ => ("other", DeletionStatus::Set),
                };
                let value = if matches!(status, DeletionStatus::Deleted(_)) { "" } else { "1" };
                n.cluster_state.node_state_mut_or_init(&p).set_versioned_value(
                    key.to_string(),
                    VersionedValue { value: value.to_string(), version: p_version, status },
                );
            }
            WOp::SelfSet => {
                self_writes += 1;
                n.self_node_state().set("mine", self_writes);
            }
            WOp::GcKeys => {
                n.gc_keys_marked_for_deletion();
            }
            WOp::Eval => {
                n.update_nodes_liveness();
                let when = format!("after op #{} (Eval; warm-up is ops 0..4)", i);
                let published_now = rx.has_changed().unwrap_or(false);
                let watch_val: BTreeMap<ChitchatId, NodeState> = rx.borrow_and_update().clone();
                let live: Vec<ChitchatId> = n.live_nodes().cloned().collect();
                if !live.contains(&me) {
                    r.fail("self-not-live", format!("{when}: local node not live"), case.clone());
                }
                let mut want: BTreeMap<ChitchatId, u64> = BTreeMap::new();
                let mut now_seen: BTreeMap<ChitchatId, u64> = BTreeMap::new();
                for id in &live {
                    if let Some(ns) = n.node_state(id) {
                        now_seen.insert(id.clone(), ns.max_version());
                        if pred(ns) {
                            want.insert(id.clone(), ns.max_version());
                        }
                    }
                }
                let got: BTreeMap<ChitchatId, u64> = watch_val.iter().map(|(k, v)| (k.clone(), v.max_version())).collect();
                let got_ids: Vec<u16> = got.keys().map(|k| k.gossip_advertise_addr.port()).collect();
                let want_ids: Vec<u16> = want.keys().map(|k| k.gossip_advertise_addr.port()).collect();
                if got_ids != want_ids {
                    let extra = got.keys().any(|k| !want.contains_key(k));
                    r.fail(
                        if extra { "watch-lists-member-failing-predicate-or-not-live" } else { "watch-misses-live-member" },
                        format!("{when}: watch lists members (ports) {:?}, live members satisfying the predicate are {:?}", got_ids, want_ids),
                        case.clone(),
                    );
                } else if got != want {
                    r.fail("watch-stale-max-version", format!("{when}: watch snapshots carry max versions {:?}, current are {:?}", got.values().collect::<Vec<_>>(), want.values().collect::<Vec<_>>()), case.clone());
                }
                if let Some(prev) = &seen {
                    if *prev != now_seen {
                        r.nontrivial += 1;
                        if !published_now {
                            r.fail("change-not-published", format!("{when}: live members / max versions changed from {:?} to {:?} but no new value was published", prev.values().collect::<Vec<_>>(), now_seen.values().collect::<Vec<_>>()), case.clone());
                        }
                    }
                }
                // (nothing is demanded of the very first evaluation beyond the content check above: a
                // constructor may legitimately pre-seed the channel with the right value)
                seen = Some(now_seen);
            }
        }
    }
}

#[tokio::test(start_paused = true)]
async fn verif_c13_watch() {
    let len = if tier_thorough() { 6 } else { 5 };
    let mut r = Report::new(
        "c13_watch",
        &format!("the freshly built local node is evaluated alone, then members P, Q are made live by 3 fresh heartbeats 1 s apart; every sequence of up to {len} operations over {{Tick (clock +1 s, fresh heartbeats of P and Q), Silence (clock +60 s), silence for everybody but P / but Q, two fresh heartbeats 1 s apart of P / Q / a third member R, P's copy learns ready=1 / ready expiring (TTL) / ready deleted / another key, an ACK resetting P's copy to a lower max version, local write, key GC pass (grace 1 s), Eval}} ending in Eval, with no extra predicate and with the predicate 'has key ready'; after every Eval the watch value is compared with the live members satisfying the predicate and their current max versions, and a changed (live set, max versions) must have been published; plus seeded sequences of length 14"),
        true,
    );
    let alpha = [
        WOp::Tick, WOp::Silence, WOp::SilenceButP, WOp::SilenceButQ, WOp::ReviveP, WOp::ReviveQ, WOp::ReviveR, WOp::SetReady, WOp::TtlReady,
        WOp::DelReady, WOp::SetOther, WOp::ResetLower, WOp::SelfSet, WOp::GcKeys, WOp::Eval,
    ];
    for with_pred in [false, true] {
        let mut idx: Vec<usize> = vec![0];
        loop {
            // only sequences that end in an evaluation say something new
            if alpha[*idx.last().unwrap()] == WOp::Eval {
                let seq: Vec<WOp> = idx.iter().map(|i| alpha[*i]).collect();
                c13_run(&seq, with_pred, &mut r).await;
                if r.samples.is_empty() && seq.len() == len {
                    r.sample(format!("{:?}", seq));
                }
            }
            if idx.len() < len {
                idx.push(0);
                continue;
            }
            let mut done = true;
            while let Some(last) = idx.pop() {
                if last + 1 < alpha.len() {
                    idx.push(last + 1);
                    done = false;
                    break;
                }
            }
            if done {
                break;
            }
        }
        let mut rng = Rng64(seed() ^ 0xC13);
        let nrand = if tier_thorough() { 20_000 } else { 2_000 };
        for _ in 0..nrand {
            let mut seq: Vec<WOp> = (0..13).map(|_| alpha[rng.below(alpha.len() as u64) as usize]).collect();
            seq.push(WOp::Eval);
            c13_run(&seq, with_pred, &mut r).await;
        }
    }
    r.emit();
}
