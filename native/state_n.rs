// Native bounded stand-ins for state.rs (child module of state.rs in the scratch copy: private
// functions such as NodeState::apply_delta / check_delta_status / gc_keys_marked_for_deletion and
// private fields are visible). Grade B; every scope is stated in the report.
#![allow(dead_code, unused_imports)]
use std::collections::{BTreeMap, HashSet};
use std::sync::{Arc, Mutex};
use std::time::Duration;

use tokio::time::Instant;

use super::*;
use crate::delta::{Delta, DeltaSerializer, NodeDelta};
use crate::serialize::{Deserializable, Serializable};
use crate::types::{DeletionStatus, DeletionStatusMutation, KeyValueMutation};

#[path = "/verif/native/common.rs"]
mod common;
use common::*;

fn id(i: u16) -> ChitchatId {
    ChitchatId::for_local_test(20_000 + i)
}

fn status(code: u8) -> DeletionStatus {
    match code {
        0 => DeletionStatus::Set,
        1 => DeletionStatus::Deleted(Instant::now()),
        _ => DeletionStatus::DeleteAfterTtl(Instant::now()),
    }
}
fn kind(s: &DeletionStatus) -> u8 {
    match s {
        DeletionStatus::Set => 0,
        DeletionStatus::Deleted(_) => 1,
        DeletionStatus::DeleteAfterTtl(_) => 2,
    }
}
fn mkind(s: DeletionStatusMutation) -> u8 {
    match s {
        DeletionStatusMutation::Set => 0,
        DeletionStatusMutation::Delete => 1,
        DeletionStatusMutation::DeleteAfterTtl => 2,
    }
}
fn mstatus(code: u8) -> DeletionStatusMutation {
    match code {
        0 => DeletionStatusMutation::Set,
        1 => DeletionStatusMutation::Delete,
        _ => DeletionStatusMutation::DeleteAfterTtl,
    }
}

type Snap = (u64, u64, u64, Vec<(String, String, u64, u8)>); // gc, max, heartbeat, entries

fn snap(ns: &NodeState) -> Snap {
    (
        ns.last_gc_version,
        ns.max_version,
        ns.heartbeat.0,
        ns.key_values
            .iter()
            .map(|(k, v)| (k.clone(), v.value.clone(), v.version, kind(&v.status)))
            .collect(),
    )
}

/// a copy with the given frontier and entries (key, version, status code); entries are written
/// straight into the map so that any (watermark, max version, entries) combination can be built
/// when set, a key has the same value in the copy and in every delta whatever the version (an owner
/// going back to a value a copy already holds); otherwise all values are distinct
static SAME_VALUES: std::sync::atomic::AtomicBool = std::sync::atomic::AtomicBool::new(false);
fn same_values() -> bool {
    SAME_VALUES.load(std::sync::atomic::Ordering::Relaxed)
}
fn cval(k: &str, v: u64) -> String {
    if same_values() { format!("v{k}") } else { format!("{k}{v}") }
}
fn dval(k: &str, v: u64) -> String {
    if same_values() { format!("v{k}") } else { format!("d{k}{v}") }
}
fn copy_of(gc: u64, max: u64, entries: &[(&str, u64, u8)]) -> NodeState {
    let mut ns = NodeState::new(id(0), Listeners::default());
    for (k, v, st) in entries {
        ns.key_values.insert(
            k.to_string(),
            VersionedValue {
                value: cval(k, *v),
                version: *v,
                status: status(*st),
            },
        );
    }
    ns.max_version = max;
    ns.last_gc_version = gc;
    ns
}

// ------------------------------------------------------------------------------------------
// A-svv: the contract assumed in units/u1_state.vrs for NodeState::set_versioned_value, checked on
// the real function, plus the listener trigger condition (C15).
#[test]
fn verif_svv_contract() {
    let mut r = Report::new(
        "svv_contract",
        "old entry for the key in {absent, version 0..4 x 3 statuses} x other key present or not x copy max in {0,2,4,6} x update version 0..6 x 3 statuses; listener with the empty prefix counts calls",
        true,
    );
    for old_entry in std::iter::once(None).chain((0..5u64).flat_map(|v| (0..3u8).map(move |s| Some((v, s))))) {
        for other in [false, true] {
            for max in [0u64, 2, 4, 6] {
                for uv in 0..7u64 {
                    for ust in 0..3u8 {
                        let case = format!("old={:?} other={other} max={max} update=(v{uv},st{ust})", old_entry);
                        if let Some(rc) = replay_case() {
                            if rc != case {
                                continue;
                            }
                        }
                        r.evaluations += 1;
                        let mut entries: Vec<(&str, u64, u8)> = Vec::new();
                        if let Some((v, s)) = old_entry {
                            entries.push(("k", v, s));
                        }
                        if other {
                            entries.push(("o", 1, 0));
                        }
                        let mut ns = copy_of(3, max, &entries);
                        let calls: Arc<Mutex<Vec<(String, String)>>> = Arc::new(Mutex::new(Vec::new()));
                        let c2 = calls.clone();
                        let _h = ns.listeners.subscribe_event("", move |ev| {
                            c2.lock().unwrap().push((ev.key.to_string(), ev.value.to_string()));
                        });
                        let before = snap(&ns);
                        let upd = VersionedValue {
                            value: "new".to_string(),
                            version: uv,
                            status: status(ust),
                        };
                        if let Err(p) = no_panic(|| ns.set_versioned_value("k".to_string(), upd)) {
                            r.fail("panic", format!("set_versioned_value panicked: {p}"), case);
                            continue;
                        }
                        r.nontrivial += 1;
                        if r.samples.len() < 2 {
                            r.sample(case.clone());
                        }
                        let after = snap(&ns);
                        let replaced = match old_entry {
                            Some((v, _)) => v < uv,
                            None => true,
                        };
                        let mut want = before.clone();
                        want.1 = before.1.max(uv);
                        if replaced {
                            want.3.retain(|e| e.0 != "k");
                            want.3.push(("k".to_string(), "new".to_string(), uv, ust));
                            want.3.sort();
                        }
                        if after != want {
                            r.fail("contract", format!("after {:?}, contract says {:?}", after, want), case.clone());
                        }
                        let got_calls = calls.lock().unwrap().clone();
                        let want_calls: Vec<(String, String)> = if replaced && ust != 1 {
                            vec![("k".to_string(), "new".to_string())]
                        } else {
                            vec![]
                        };
                        if got_calls != want_calls {
                            r.fail("listener-trigger", format!("listener calls {:?}, expected {:?}", got_calls, want_calls), case.clone());
                        }
                    }
                }
            }
        }
    }
    r.emit();
}

// ------------------------------------------------------------------------------------------
// C04: the property's exhaustive scope of (copy, delta) pairs, same statements as apply_delta's
// Verus contract, evaluated on the real function.
fn status_spec(m: u64, g: u64, from: u64, dgc: u64, dmax: u64) -> DeltaStatus {
    if from > m {
        DeltaStatus::Reject
    } else if !(dgc <= g || dgc <= m) {
        if from != 0 {
            DeltaStatus::Reject
        } else {
            DeltaStatus::ApplyAfterReset
        }
    } else if m < dmax {
        DeltaStatus::Apply
    } else {
        DeltaStatus::Reject
    }
}

fn kv_configs(maxv: u64) -> Vec<Vec<(&'static str, u64, u8)>> {
    // up to 3 keys, ascending distinct versions <= maxv
    let mut out: Vec<Vec<(&'static str, u64, u8)>> = vec![vec![]];
    let vs: Vec<u64> = (1..=maxv).collect();
    for &v1 in &vs {
        for s1 in 0..3u8 {
            out.push(vec![("a", v1, s1)]);
        }
    }
    for (i, &v1) in vs.iter().enumerate() {
        for &v2 in &vs[i + 1..] {
            out.push(vec![("a", v1, 0), ("b", v2, 1)]);
            out.push(vec![("b", v1, 2), ("a", v2, 0)]);
        }
    }
    if maxv >= 3 {
        out.push(vec![("a", 1, 0), ("b", 2, 1), ("c", maxv, 2)]);
        out.push(vec![("c", 1, 1), ("a", maxv - 1, 0), ("b", maxv, 0)]);
    }
    out
}

fn check_apply(copy: &NodeState, nd_parts: (u64, u64, u64, &[(&'static str, u64, u8)]), r: &mut Report, case: &str) {
    let (from, dgc, dmax, kvs) = nd_parts;
    let node_delta = NodeDelta {
        chitchat_id: id(0),
        from_version_excluded: from,
        last_gc_version: dgc,
        key_values: kvs
            .iter()
            .map(|(k, v, st)| KeyValueMutation {
                key: k.to_string(),
                value: dval(k, *v),
                version: *v,
                status: mstatus(*st),
            })
            .collect(),
        max_version: dmax,
    };
    let mut ns = copy.clone();
    let before = snap(&ns);
    let want_status = status_spec(before.1, before.0, from, dgc, dmax);
    let res = no_panic(|| ns.apply_delta(node_delta, Instant::now()));
    let got_status = match res {
        Err(p) => {
            r.fail("apply-panic", format!("apply_delta panicked: {p}"), case);
            return;
        }
        Ok(s) => s,
    };
    let after = snap(&ns);
    if got_status != want_status {
        r.fail("status", format!("status {:?}, admission rule says {:?}", got_status, want_status), case);
        return;
    }
    if (after.0, after.1) < (before.0, before.1) {
        r.fail("frontier-regressed", format!("(gc,max) {:?} -> {:?}", (before.0, before.1), (after.0, after.1)), case);
    }
    match got_status {
        DeltaStatus::Reject => {
            if after != before {
                r.fail("reject-changed", format!("rejected delta changed the copy: {:?} -> {:?}", before, after), case);
            }
        }
        DeltaStatus::Apply => {
            if after.0 != before.0 || after.1 != dmax || after.1 <= before.1 {
                r.fail("apply-frontier", format!("after apply (gc,max)={:?}, expected ({},{})", (after.0, after.1), before.0, dmax), case);
            }
            for e in &before.3 {
                match after.3.iter().find(|a| a.0 == e.0) {
                    None => r.fail("key-lost", format!("key {} disappeared without a reset", e.0), case),
                    Some(a) if a.2 < e.2 => r.fail("version-lowered", format!("key {} version {} -> {}", e.0, e.2, a.2), case),
                    _ => {}
                }
            }
        }
        DeltaStatus::ApplyAfterReset => {
            if after.0 != dgc || after.0 <= before.0 || after.1 != dmax {
                r.fail("reset-frontier", format!("after reset (gc,max)={:?}, expected ({},{}) with gc > {}", (after.0, after.1), dgc, dmax, before.0), case);
            }
        }
    }
    if got_status != DeltaStatus::Reject {
        let base = if got_status == DeltaStatus::Apply { before.1 } else { 0 };
        for a in &after.3 {
            let from_old = got_status == DeltaStatus::Apply && before.3.iter().any(|e| e == a);
            let from_delta = kvs.iter().any(|(k, v, st)| {
                *k == a.0 && dval(k, *v) == a.1 && *v == a.2 && *st == a.3 && *v > base && (*st == 0 || *v > after.0)
            });
            if !from_old && !from_delta {
                r.fail("foreign-entry", format!("entry {:?} is neither an old entry nor an admissible delta entry", a), case);
            }
            if a.2 > after.1 {
                r.fail("version-above-max", format!("entry {:?} above max {}", a, after.1), case);
            }
        }
        // every admissible delta entry must have been taken (gap-free application)
        for (k, v, st) in kvs {
            let admissible = *v > base && (*st == 0 || *v > after.0);
            let newer_same_key = kvs.iter().any(|(k2, v2, st2)| k2 == k && v2 > v && (*st2 == 0 || *v2 > after.0));
            let old_newer = got_status == DeltaStatus::Apply && before.3.iter().any(|e| e.0 == *k && e.2 >= *v);
            if admissible && !newer_same_key && !old_newer && !after.3.iter().any(|a| a.0 == *k && a.2 == *v) {
                r.fail("entry-dropped", format!("admissible delta entry ({k},{v},{st}) was not applied"), case);
            }
        }
    }
}

#[test]
fn verif_c04_scope() {
    let top: u64 = if tier_thorough() { 6 } else { 4 };
    let mut r = Report::new(
        "c04_scope",
        &format!("every copy (watermark 0..{top}, max version 0..{top}, 0..3 keys of every status with distinct versions <= max) x every well-formed delta (from 0..{top}, watermark 0..{top}, max version 0..{top}, 0..3 key-values with ascending versions <= max version), whether or not an honest sender could have produced it; once with all values distinct and once with one value per key (the delta repeats the value the copy holds)"),
        true,
    );
    for same in [false, true] {
    SAME_VALUES.store(same, std::sync::atomic::Ordering::Relaxed);
    for g in 0..=top {
        for m in 0..=top {
            for ckv in kv_configs(m) {
                let copy = copy_of(g, m, &ckv);
                for from in 0..=top {
                    for dgc in 0..=top {
                        for dmax in 0..=top {
                            for dkv in kv_configs(dmax) {
                                // quick tier: thin out the delta key configurations
                                if !tier_thorough() && dkv.len() == 1 && dkv[0].2 == 2 && ckv.len() > 1 {
                                    continue;
                                }
                                let case = format!("copy=(gc{g},max{m},{:?}) delta=(from{from},gc{dgc},max{dmax},{:?}){}", ckv, dkv, if same { " same-value-per-key" } else { "" });
                                if let Some(rc) = replay_case() {
                                    if rc != case {
                                        continue;
                                    }
                                }
                                r.evaluations += 1;
                                if status_spec(m, g, from, dgc, dmax) != DeltaStatus::Reject {
                                    r.nontrivial += 1;
                                    if r.samples.len() < 2 && !dkv.is_empty() {
                                        r.sample(case.clone());
                                    }
                                }
                                check_apply(&copy, (from, dgc, dmax, &dkv), &mut r, &case);
                            }
                        }
                    }
                }
            }
        }
    }
    }
    SAME_VALUES.store(false, std::sync::atomic::Ordering::Relaxed);
    r.emit();
}

// ------------------------------------------------------------------------------------------
// C14 (+C03, C07 content, C01 progress sentence): real sender -> wire -> real receiver.
fn cluster_with(copy: NodeState) -> ClusterState {
    let mut cs = ClusterState::default();
    cs.node_states.insert(copy.chitchat_id.clone(), copy);
    cs
}

fn check_pair(sender: &NodeState, recv: &NodeState, mtu: usize, r: &mut Report, case: &str) {
    let scs = cluster_with(sender.clone());
    let rcs = cluster_with(recv.clone());
    let digest = rcs.compute_digest(&HashSet::new());
    let delta = match no_panic(|| scs.compute_partial_delta_respecting_mtu(&digest, mtu, &HashSet::new())) {
        Err(p) => {
            r.fail("sender-panic", format!("compute_partial_delta_respecting_mtu panicked: {p}"), case);
            return;
        }
        Ok(d) => d,
    };
    let (sg, sm) = (sender.last_gc_version, sender.max_version);
    let (rg, rm) = (recv.last_gc_version, recv.max_version);
    // wire round trip of the delta (C08 announces its exact length)
    let bytes = delta.serialize_to_vec();
    if bytes.len() != delta.serialized_len() {
        r.fail("announced-len", format!("delta announced {} bytes, wrote {}", delta.serialized_len(), bytes.len()), case);
    }
    if bytes.len() > mtu {
        r.fail("delta-over-budget", format!("delta is {} bytes for a budget of {mtu}", bytes.len()), case);
    }
    let decoded = match Delta::deserialize(&mut &bytes[..]) {
        Ok(d) => d,
        Err(e) => {
            r.fail("own-delta-undecodable", format!("the sender's delta does not decode: {e}"), case);
            return;
        }
    };
    if decoded != delta {
        r.fail("wire-roundtrip", "decoded delta differs from the computed one".to_string(), case);
    }
    let nd = delta.node_deltas.iter().find(|nd| nd.chitchat_id == sender.chitchat_id);
    if sm <= rm {
        if nd.is_some() {
            r.fail("offer-when-not-ahead", format!("sender (gc{sg},max{sm}) offered a delta to receiver (gc{rg},max{rm})"), case);
        }
        return;
    }
    r.nontrivial += 1;
    let Some(nd) = nd else {
        // space permitting: the member header alone needs ~45 bytes; every budget here is >= 100
        r.fail("nothing-offered", format!("sender ahead (max{sm} > {rm}) but the delta carries nothing for the member"), case);
        return;
    };
    let should_reset = rm < sg && rg < sg;
    if (nd.from_version_excluded == 0 && should_reset) || (!should_reset && nd.from_version_excluded == rm) {
    } else {
        r.fail("from-version", format!("from_version_excluded={} for receiver (gc{rg},max{rm}) sender gc{sg}", nd.from_version_excluded), case);
    }
    if nd.last_gc_version != sg {
        r.fail("delta-gc", format!("delta watermark {} != sender watermark {sg}", nd.last_gc_version), case);
    }
    // C07 content / C03: exactly the sender's entries with version in (from, dmax], ascending
    let from = nd.from_version_excluded;
    let mut want: Vec<(String, String, u64, u8)> = sender
        .key_values
        .iter()
        .filter(|(_, v)| v.version > from && v.version <= nd.max_version)
        .map(|(k, v)| (k.clone(), v.value.clone(), v.version, kind(&v.status)))
        .collect();
    want.sort_by_key(|e| e.2);
    let got: Vec<(String, String, u64, u8)> = nd.key_values.iter().map(|kv| (kv.key.clone(), kv.value.clone(), kv.version, mkind(kv.status))).collect();
    if got != want {
        r.fail("window", format!("delta carries {:?}, the sender's window ({from},{}] is {:?}", got, nd.max_version, want), case);
    }
    if nd.max_version > sm {
        r.fail("delta-ahead-of-sender", format!("delta max version {} > sender max version {sm}", nd.max_version), case);
    }
    if nd.key_values.is_empty() && nd.max_version == 0 {
        // truncated right after the member header: nothing to apply ("space permitting")
        return;
    }
    // receiver side
    let mut rns = recv.clone();
    let before = snap(&rns);
    let nd_owned = NodeDelta {
        chitchat_id: nd.chitchat_id.clone(),
        from_version_excluded: nd.from_version_excluded,
        last_gc_version: nd.last_gc_version,
        key_values: nd.key_values.clone(),
        max_version: nd.max_version,
    };
    let st = match no_panic(|| rns.apply_delta(nd_owned, Instant::now())) {
        Err(p) => {
            r.fail("receiver-panic", format!("apply_delta panicked: {p}"), case);
            return;
        }
        Ok(s) => s,
    };
    if st == DeltaStatus::Reject {
        r.fail("refused-own-digest-delta", format!("receiver (gc{rg},max{rm}) refused the delta (from{},gc{},max{}) computed from its own digest", nd.from_version_excluded, nd.last_gc_version, nd.max_version), case);
        return;
    }
    if (st == DeltaStatus::ApplyAfterReset) != should_reset {
        r.fail("reset-disagreement", format!("receiver status {:?} but sender-side reset decision is {should_reset}", st), case);
    }
    let after = snap(&rns);
    if (after.0, after.1) <= (before.0, before.1) {
        r.fail("no-progress", format!("(gc,max) {:?} -> {:?} is not a strict increase", (before.0, before.1), (after.0, after.1)), case);
    }
}

fn sender_configs(top: u64) -> Vec<(u64, u64, Vec<(&'static str, u64, u8)>)> {
    let mut out = Vec::new();
    for sg in 0..=top {
        for sm in 0..=top {
            // entries with version <= sm; tombstones only above the watermark (an honest copy)
            let mut cfgs: Vec<Vec<(&'static str, u64, u8)>> = vec![vec![]];
            if sm >= 1 {
                cfgs.push(vec![("a", sm, 0)]);
                if sm > sg {
                    cfgs.push(vec![("a", sm, 1)]);
                    cfgs.push(vec![("a", sm, 2)]);
                }
            }
            if sm >= 2 {
                cfgs.push(vec![("a", 1, 0), ("b", sm, 0)]);
                if sm - 1 > sg {
                    cfgs.push(vec![("a", sm - 1, 1), ("b", sm, 0)]);
                }
            }
            if sm >= 3 {
                cfgs.push(vec![("c", 1, 0), ("a", 2, 0), ("b", sm, if sm > sg { 2 } else { 0 })]);
                cfgs.push(vec![("a", sm - 2, 0), ("b", sm - 1, 0), ("c", sm, 0)]);
            }
            for c in cfgs {
                out.push((sg, sm, c));
            }
        }
    }
    out
}

#[test]
fn verif_c14_scope() {
    let top: u64 = if tier_thorough() { 7 } else { 4 };
    let mtus: Vec<usize> = if tier_thorough() { (100..=200).step_by(4).chain([400, 65_000]).collect() } else { vec![100, 110, 124, 140, 160, 200, 65_000] };
    let mut r = Report::new(
        "c14_scope",
        &format!("every sender copy (watermark 0..{top}, max version 0..{top}, <=3 keys of every status) x every receiver copy (watermark 0..{top}, max version 0..{top}, incl. watermark above max version) x budgets {:?} (each a truncation point); real compute_partial_delta_respecting_mtu -> serialize -> deserialize -> apply_delta", mtus),
        true,
    );
    let senders = sender_configs(top);
    for (sg, sm, skv) in &senders {
        let mut sender = copy_of(*sg, *sm, skv);
        // pad values so that key-values cross the small budgets
        for (_, v) in sender.key_values.iter_mut() {
            v.value = format!("{:x<24}", v.value);
        }
        for rg in 0..=top {
            for rm in 0..=top {
                let rkv: Vec<(&'static str, u64, u8)> = if rm >= 1 { vec![("a", rm, 0)] } else { vec![] };
                let recv = copy_of(rg, rm, &rkv);
                for &mtu in &mtus {
                    let case = format!("sender=(gc{sg},max{sm},{:?}) receiver=(gc{rg},max{rm}) mtu={mtu}", skv);
                    if let Some(rc) = replay_case() {
                        if rc != case {
                            continue;
                        }
                    }
                    r.evaluations += 1;
                    if r.samples.len() < 2 && sm > &rm && skv.len() > 1 {
                        r.sample(case.clone());
                    }
                    check_pair(&sender, &recv, mtu, &mut r, &case);
                }
            }
        }
    }
    r.emit();
}

// ------------------------------------------------------------------------------------------
// C06: operation sequences against a reference versioned map (reads, iteration, prefix
// iteration, count, TTL, tombstone GC relative to the grace period on tokio's paused clock).
#[derive(Clone, Debug, PartialEq)]
struct MEntry {
    value: String,
    version: u64,
    kind: u8,
    ts_ms: u64,
}
#[derive(Clone, Debug, Default)]
struct Model {
    kv: BTreeMap<String, MEntry>,
    max: u64,
    gc: u64,
    now_ms: u64,
}
#[derive(Clone, Copy, Debug, PartialEq)]
enum MOp {
    Set(u8, u8),
    SetTtl(u8, u8),
    Delete(u8),
    DeleteTtl(u8),
    Advance(u8),
    Gc,
}
const KEYS: [&str; 5] = ["", "a", "ab", "b", "é"];
const VALS: [&str; 3] = ["", "x", "y"];
const GRACE_MS: u64 = 1000;
const STEPS_MS: [u64; 3] = [GRACE_MS - 1, 1, GRACE_MS];

impl Model {
    fn apply(&mut self, op: MOp) {
        match op {
            MOp::Set(k, v) => {
                let (k, v) = (KEYS[k as usize], VALS[v as usize]);
                if let Some(e) = self.kv.get(k) {
                    if e.value == v && e.kind == 0 {
                        return;
                    }
                }
                self.max += 1;
                self.kv.insert(k.to_string(), MEntry { value: v.to_string(), version: self.max, kind: 0, ts_ms: 0 });
            }
            MOp::SetTtl(k, v) => {
                let (k, v) = (KEYS[k as usize], VALS[v as usize]);
                if let Some(e) = self.kv.get(k) {
                    if e.value == v && e.kind == 2 {
                        return;
                    }
                }
                self.max += 1;
                self.kv.insert(k.to_string(), MEntry { value: v.to_string(), version: self.max, kind: 2, ts_ms: self.now_ms });
            }
            MOp::Delete(k) => {
                let k = KEYS[k as usize];
                if self.kv.contains_key(k) {
                    self.max += 1;
                    self.kv.insert(k.to_string(), MEntry { value: String::new(), version: self.max, kind: 1, ts_ms: self.now_ms });
                }
            }
            MOp::DeleteTtl(k) => {
                let k = KEYS[k as usize];
                let (max, now) = (self.max + 1, self.now_ms);
                if let Some(e) = self.kv.get_mut(k) {
                    e.version = max;
                    e.kind = 2;
                    e.ts_ms = now;
                    self.max = max;
                }
            }
            MOp::Advance(s) => self.now_ms += STEPS_MS[s as usize],
            MOp::Gc => {
                let now = self.now_ms;
                let mut g = self.gc;
                self.kv.retain(|_, e| {
                    if e.kind != 0 && now >= e.ts_ms + GRACE_MS {
                        g = g.max(e.version);
                        false
                    } else {
                        true
                    }
                });
                self.gc = g;
            }
        }
    }
}

async fn real_apply(ns: &mut NodeState, op: MOp) {
    match op {
        MOp::Set(k, v) => ns.set(KEYS[k as usize], VALS[v as usize]),
        MOp::SetTtl(k, v) => ns.set_with_ttl(KEYS[k as usize], VALS[v as usize]),
        MOp::Delete(k) => ns.delete(KEYS[k as usize]),
        MOp::DeleteTtl(k) => ns.delete_after_ttl(KEYS[k as usize]),
        MOp::Advance(s) => tokio::time::advance(Duration::from_millis(STEPS_MS[s as usize])).await,
        MOp::Gc => ns.gc_keys_marked_for_deletion(Duration::from_millis(GRACE_MS)),
    }
}

fn compare(ns: &NodeState, m: &Model) -> Option<String> {
    if ns.max_version() != m.max {
        return Some(format!("max_version {} vs model {}", ns.max_version(), m.max));
    }
    if ns.last_gc_version() != m.gc {
        return Some(format!("last_gc_version {} vs model {}", ns.last_gc_version(), m.gc));
    }
    let real_all: Vec<(String, String, u64, u8)> = ns
        .key_values_including_deleted()
        .map(|(k, v)| (k.to_string(), v.value.clone(), v.version, kind(&v.status)))
        .collect();
    let model_all: Vec<(String, String, u64, u8)> = m.kv.iter().map(|(k, e)| (k.clone(), e.value.clone(), e.version, e.kind)).collect();
    if real_all != model_all {
        return Some(format!("entries {:?} vs model {:?}", real_all, model_all));
    }
    let visible: Vec<(String, String)> = m.kv.iter().filter(|(_, e)| e.kind != 1).map(|(k, e)| (k.clone(), e.value.clone())).collect();
    let real_vis: Vec<(String, String)> = ns.key_values().map(|(k, v)| (k.to_string(), v.to_string())).collect();
    if real_vis != visible {
        return Some(format!("key_values() {:?} vs model {:?}", real_vis, visible));
    }
    if ns.num_key_values() != visible.len() {
        return Some(format!("num_key_values {} vs model {}", ns.num_key_values(), visible.len()));
    }
    for k in KEYS {
        let want = m.kv.get(k).filter(|e| e.kind != 1).map(|e| e.value.as_str());
        if ns.get(k) != want {
            return Some(format!("get({k:?}) = {:?} vs model {:?}", ns.get(k), want));
        }
        if ns.contains_key(k) != want.is_some() {
            return Some(format!("contains_key({k:?}) = {} vs model {}", ns.contains_key(k), want.is_some()));
        }
        let wantp: Vec<String> = visible.iter().filter(|(key, _)| key.starts_with(k)).map(|(key, _)| key.clone()).collect();
        let gotp: Vec<String> = ns.iter_prefix(k).map(|(key, _)| key.to_string()).collect();
        if gotp != wantp {
            return Some(format!("iter_prefix({k:?}) = {:?} vs model {:?}", gotp, wantp));
        }
    }
    None
}

fn mop_alphabet(nkeys: u8) -> Vec<MOp> {
    let mut v = Vec::new();
    for k in 0..nkeys {
        for val in 0..3u8 {
            v.push(MOp::Set(k, val));
        }
        for val in 0..2u8 {
            v.push(MOp::SetTtl(k, val));
        }
        v.push(MOp::Delete(k));
        v.push(MOp::DeleteTtl(k));
    }
    for s in 0..3u8 {
        v.push(MOp::Advance(s));
    }
    v.push(MOp::Gc);
    v
}

async fn run_seq(seq: &[MOp], r: &mut Report) {
    let case = format!("{:?}", seq);
    if let Some(rc) = replay_case() {
        if rc != case {
            return;
        }
    }
    r.evaluations += 1;
    let mut ns = NodeState::for_test();
    let mut m = Model::default();
    let mut effective = false;
    for (i, op) in seq.iter().enumerate() {
        let before_max = m.max;
        real_apply(&mut ns, *op).await;
        m.apply(*op);
        if m.max != before_max {
            effective = true;
        }
        if let Some(d) = compare(&ns, &m) {
            r.fail(format!("model-mismatch:{}", d.split(' ').next().unwrap_or("")), format!("after op #{i} {:?}: {d}", op), case);
            return;
        }
    }
    if effective {
        r.nontrivial += 1;
    }
}

#[tokio::test(start_paused = true)]
async fn verif_c06_model() {
    let exh_len = if tier_thorough() { 5 } else { 4 };
    let nkeys: u8 = 3;
    let mut r = Report::new(
        "c06_model",
        &format!("all operation sequences up to length {exh_len} over set(3 values incl. the empty string)/set_with_ttl(2 values incl. the empty string)/delete/delete_after_ttl on the first {nkeys} keys of ['', 'a', 'ab', 'b', 'é'], clock steps grace-1ms / 1ms / grace, GC; plus seeded random sequences of length 40 over all 5 keys (thorough: 3000, quick: 300); after every op all reads are compared with a reference map: get, contains_key, key_values, num_key_values, iter_prefix for each of the 5 keys as prefix, entries incl. tombstones, max version, GC watermark"),
        true,
    );
    let alpha = mop_alphabet(nkeys);
    // exhaustive part: iterative deepening over the alphabet
    let mut idx = vec![0usize; 0];
    loop {
        let seq: Vec<MOp> = idx.iter().map(|i| alpha[*i]).collect();
        if !seq.is_empty() {
            run_seq(&seq, &mut r).await;
            if r.samples.len() < 1 && seq.len() == exh_len {
                r.sample(format!("{:?}", seq));
            }
        }
        // next sequence in length-lexicographic order
        if next_extend(&mut idx, alpha.len(), exh_len) {
            continue;
        }
        break;
    }
    // seeded random part
    let alpha_all = mop_alphabet(5);
    let mut rng = Rng64(seed() ^ 0xC06);
    let nrand = if tier_thorough() { 3000 } else { 300 };
    for _ in 0..nrand {
        let seq: Vec<MOp> = (0..40).map(|_| alpha_all[rng.below(alpha_all.len() as u64) as usize]).collect();
        run_seq(&seq, &mut r).await;
    }
    r.emit();
}

/// depth-first successor: extend with the first symbol if shorter than maxlen, otherwise bump the
/// last position (with carry / truncation); false when exhausted
fn next_extend(idx: &mut Vec<usize>, base: usize, maxlen: usize) -> bool {
    if idx.len() < maxlen {
        idx.push(0);
        return true;
    }
    while let Some(last) = idx.pop() {
        if last + 1 < base {
            idx.push(last + 1);
            return true;
        }
    }
    false
}

// ------------------------------------------------------------------------------------------
// C07 content / C12 exclusion: several members, every subset scheduled for deletion, every small
// digest frontier, budgets that cut at every key boundary.
#[test]
fn verif_c07_window() {
    let mtus: Vec<usize> = if tier_thorough() { (100..=330).step_by(3).chain([65_000]).collect() } else { vec![100, 118, 150, 175, 210, 260, 330, 65_000] };
    let mut r = Report::new(
        "c07_window",
        &format!("3 members with 0..4 keys of every status (versions 1..5), every subset of members scheduled for deletion, digest frontier per member in {{absent,(0,0),(0,2),(0,5),(3,1)}} (rotating over the members, or the same for all), budgets {:?} (every budget 100..200 when no member has key-values); every included member's key-values must be exactly the sender's entries in (start, delta max], ascending, no scheduled member in delta or digest, serialized delta <= budget", mtus),
        true,
    );
    let member_cfgs: Vec<(u64, u64, Vec<(&'static str, u64, u8)>)> = vec![
        (0, 0, vec![]),
        (0, 3, vec![("a", 1, 0), ("b", 2, 1), ("c", 3, 2)]),
        (2, 5, vec![("a", 3, 0), ("b", 4, 2), ("c", 5, 1), ("d", 1, 0)]),
        (4, 4, vec![]),
        (0, 5, vec![("k1", 5, 0), ("k2", 4, 0), ("k3", 2, 0), ("k4", 1, 0)]),
        // one value larger than every small budget, in the middle of the version order
        (0, 3, vec![("a", 1, 0), ("big", 2, 0), ("c", 3, 0)]),
        // members that are ahead only by their max version (every tombstone collected), with
        // different max versions: a peer that knows them at (0,5) gets a bare SetMaxVersion each
        (4, 6, vec![]),
        (2, 9, vec![]),
        (5, 7, vec![]),
    ];
    let digest_cfgs: [Option<(u64, u64)>; 5] = [None, Some((0, 0)), Some((0, 2)), Some((0, 5)), Some((3, 1))];
    let fine_mtus: Vec<usize> = (100..=200).collect();
    let mut combos = 0u64;
    for c0 in 0..member_cfgs.len() {
        for c1 in 0..member_cfgs.len() {
            let c2 = (c0 + 2 * c1 + 1) % member_cfgs.len();
            let picks = [c0, c1, c2];
            let mut cs = ClusterState::default();
            for (i, p) in picks.iter().enumerate() {
                let (g, m, kv) = &member_cfgs[*p];
                let mut ns = copy_of(*g, *m, kv);
                ns.chitchat_id = id(i as u16 + 1);
                for (k, v) in ns.key_values.iter_mut() {
                    // near-incompressible 7-bit content, so that a byte too many is not hidden by zstd
                    let n = if k == "big" { 400 } else { 20 };
                    let mut rng = Rng64((i as u64 + 1) * 1000 + v.version);
                    v.value = (0..n).map(|_| (33 + rng.below(94) as u8) as char).collect();
                }
                cs.node_states.insert(ns.chitchat_id.clone(), ns);
            }
            for sched_mask in 0..8u8 {
                let ids: Vec<ChitchatId> = (0..3u16).map(|i| id(i + 1)).collect();
                let sched: HashSet<&ChitchatId> = ids.iter().enumerate().filter(|(i, _)| sched_mask & (1 << i) != 0).map(|(_, x)| x).collect();
                // digest_sel < 5: the frontiers rotate over the members; >= 5: the same frontier for everybody
                for dsel in 0..2 * digest_cfgs.len() {
                    let mut digest = Digest::default();
                    for (i, idv) in ids.iter().enumerate() {
                        let sel = if dsel < digest_cfgs.len() { (dsel + i) % digest_cfgs.len() } else { dsel - digest_cfgs.len() };
                        if let Some((dg, dm)) = digest_cfgs[sel] {
                            digest.add_node(idv.clone(), Heartbeat(1), dg, dm);
                        }
                    }
                    // members without key-values: every budget from 100 to 200, so that a 9-byte
                    // SetMaxVersion op lands on every offset from the end of the budget
                    let fine = picks.iter().all(|p| member_cfgs[*p].2.is_empty()) && sched_mask == 0;
                    for &mtu in if fine { &fine_mtus } else { &mtus } {
                        combos += 1;
                        if !tier_thorough() && !fine && combos % 3 != 0 {
                            continue;
                        }
                        let case = format!("members={:?} scheduled_mask={sched_mask} digest_sel={dsel} mtu={mtu}", picks);
                        if let Some(rc) = replay_case() {
                            if rc != case {
                                continue;
                            }
                        }
                        r.evaluations += 1;
                        let own_digest = cs.compute_digest(&sched);
                        for s in &sched {
                            if own_digest.node_digests.contains_key(*s) {
                                r.fail("scheduled-in-digest", format!("member {:?} scheduled for deletion appears in the digest", s), case.clone());
                            }
                        }
                        let delta = match no_panic(|| cs.compute_partial_delta_respecting_mtu(&digest, mtu, &sched)) {
                            Err(p) => {
                                r.fail("sender-panic", format!("compute_partial_delta_respecting_mtu panicked: {p}"), case.clone());
                                continue;
                            }
                            Ok(d) => d,
                        };
                        let bytes = delta.serialize_to_vec();
                        if bytes.len() > mtu || bytes.len() != delta.serialized_len() {
                            r.fail("delta-size", format!("delta wrote {} bytes, announced {}, budget {mtu}", bytes.len(), delta.serialized_len()), case.clone());
                        }
                        if !delta.node_deltas.is_empty() {
                            r.nontrivial += 1;
                            if r.samples.len() < 2 && delta.node_deltas.len() > 1 {
                                r.sample(case.clone());
                            }
                        }
                        let mut seen: HashSet<ChitchatId> = HashSet::new();
                        for nd in &delta.node_deltas {
                            if !seen.insert(nd.chitchat_id.clone()) {
                                r.fail("member-twice", format!("member {:?} appears twice", nd.chitchat_id), case.clone());
                            }
                            if sched.contains(&nd.chitchat_id) {
                                r.fail("scheduled-in-delta", format!("member {:?} scheduled for deletion appears in the delta", nd.chitchat_id), case.clone());
                            }
                            let Some(ns) = cs.node_states.get(&nd.chitchat_id) else {
                                r.fail("unknown-member", "delta mentions a member the sender does not hold".to_string(), case.clone());
                                continue;
                            };
                            let (dg, dm) = digest.node_digests.get(&nd.chitchat_id).map(|d| (d.last_gc_version, d.max_version)).unwrap_or((0, 0));
                            let want_from = if dg < ns.last_gc_version && dm < ns.last_gc_version { 0 } else { dm };
                            if nd.from_version_excluded != want_from || nd.last_gc_version != ns.last_gc_version || ns.max_version <= dm {
                                r.fail("header", format!("member header (from{},gc{}) for digest (gc{dg},max{dm}) and copy (gc{},max{})", nd.from_version_excluded, nd.last_gc_version, ns.last_gc_version, ns.max_version), case.clone());
                            }
                            let mut want: Vec<(String, u64, u8)> = ns
                                .key_values
                                .iter()
                                .filter(|(_, v)| v.version > nd.from_version_excluded && v.version <= nd.max_version)
                                .map(|(k, v)| (k.clone(), v.version, kind(&v.status)))
                                .collect();
                            want.sort_by_key(|e| e.1);
                            let got: Vec<(String, u64, u8)> = nd.key_values.iter().map(|kv| (kv.key.clone(), kv.version, mkind(kv.status))).collect();
                            if got != want {
                                r.fail("window", format!("member {:?}: delta carries {:?}, window ({},{}] of the sender is {:?}", nd.chitchat_id, got, nd.from_version_excluded, nd.max_version, want), case.clone());
                            }
                            if nd.max_version > ns.max_version {
                                r.fail("delta-ahead-of-sender", format!("delta max {} > copy max {}", nd.max_version, ns.max_version), case.clone());
                            }
                        }
                        // every member but the last one is complete: its delta ends at the sender's max version
                        for nd in delta.node_deltas.iter().rev().skip(1) {
                            if let Some(ns) = cs.node_states.get(&nd.chitchat_id) {
                                if nd.max_version != ns.max_version {
                                    r.fail("incomplete-member-before-last", format!("member {:?} is followed by another one but ends at {} (sender max {})", nd.chitchat_id, nd.max_version, ns.max_version), case.clone());
                                }
                            }
                        }
                    }
                }
            }
        }
    }
    r.emit();
}
