// Kani harnesses on types.rs codecs (C08/C09) - complete over all u8 codes.
use super::*;
#[path = "/verif/kani/stubs.rs"]
mod kstubs;

#[kani::proof]
#[kani::stub(alloc::fmt::format, kstubs::format_stub)]
#[kani::stub(std::backtrace::Backtrace::capture, kstubs::backtrace_stub)]
fn k_deletion_status_codes() {
    let b: u8 = kani::any();
    let arr = [b];
    let r = kstubs::ok(<DeletionStatusMutation as Deserializable>::deserialize(&mut &arr[..]));
    assert!(r.is_some() == (b <= 2));
    if let Some(st) = r {
        let mut out = Vec::new();
        Serializable::serialize(&st, &mut out);
        assert!(out.len() == 1 && out[0] == b && Serializable::serialized_len(&st) == 1);
        // the wire code and the in-memory status agree on the kind
        match st {
            DeletionStatusMutation::Set => assert!(b == 0),
            DeletionStatusMutation::Delete => assert!(b == 1),
            DeletionStatusMutation::DeleteAfterTtl => assert!(b == 2),
        }
    }
    kani::cover!(b == 2);
}

#[kani::proof]
#[kani::stub(alloc::fmt::format, kstubs::format_stub)]
#[kani::stub(std::backtrace::Backtrace::capture, kstubs::backtrace_stub)]
fn k_status_conversions() {
    // From<DeletionStatus> for DeletionStatusMutation keeps the kind; scheduled_for_deletion
    let c: u8 = kani::any();
    kani::assume(c <= 2);
    let m = DeletionStatusMutation::try_from(c).unwrap();
    assert!(m.scheduled_for_deletion() == (c != 0));
    assert!(u8::from(m) == c);
    kani::cover!(c == 1);
}
