// Kani harnesses on the real state.rs (child module under cfg(kani)). Grade K: loop-free, full
// domain of the fixed-width inputs -> complete proofs; they also serve as counterexample source
// for the paired Verus clauses.
use super::*;
#[path = "/verif/kani/stubs.rs"]
mod kstubs;
use crate::delta::NodeDelta;

fn ns_with(max_version: u64, last_gc_version: u64, hb: u64) -> NodeState {
    let mut ns = NodeState::for_test();
    ns.max_version = max_version;
    ns.last_gc_version = last_gc_version;
    ns.heartbeat = Heartbeat(hb);
    ns
}

#[kani::proof]
#[kani::stub(alloc::fmt::format, kstubs::format_stub)]
#[kani::stub(std::backtrace::Backtrace::capture, kstubs::backtrace_stub)]
fn k_selfcheck() {
    let x: u64 = kani::any();
    assert!(x.max(1) >= 1);
    kani::cover!(true);
}

/// pairs: NodeState::check_delta_status (u1_state) - the admission rule, all u64 inputs
#[kani::proof]
#[kani::stub(alloc::fmt::format, kstubs::format_stub)]
#[kani::stub(std::backtrace::Backtrace::capture, kstubs::backtrace_stub)]
fn k_check_delta_status() {
    let m: u64 = kani::any();
    let g: u64 = kani::any();
    let from: u64 = kani::any();
    let dgc: u64 = kani::any();
    let dmax: u64 = kani::any();
    let ns = ns_with(m, g, 0);
    let nd = NodeDelta {
        chitchat_id: ns.chitchat_id.clone(),
        from_version_excluded: from,
        last_gc_version: dgc,
        key_values: Vec::new(),
        max_version: dmax,
    };
    let got = ns.check_delta_status(&nd);
    let want = if from > m {
        DeltaStatus::Reject
    } else if !(dgc <= g || dgc <= m) {
        if from != 0 { DeltaStatus::Reject } else { DeltaStatus::ApplyAfterReset }
    } else if m < dmax {
        DeltaStatus::Apply
    } else {
        DeltaStatus::Reject
    };
    assert!(got == want);
    kani::cover!(got == DeltaStatus::ApplyAfterReset);
    std::mem::forget(ns);
    std::mem::forget(nd);
}

/// pairs: NodeState::try_set_heartbeat (u1_state); also cross-checks A-derive (derived PartialOrd
/// on Heartbeat compares the field)
#[kani::proof]
#[kani::stub(alloc::fmt::format, kstubs::format_stub)]
#[kani::stub(std::backtrace::Backtrace::capture, kstubs::backtrace_stub)]
fn k_try_set_heartbeat() {
    let old: u64 = kani::any();
    let new: u64 = kani::any();
    let mut ns = ns_with(3, 1, old);
    let r = ns.try_set_heartbeat(Heartbeat(new));
    assert!(r == (old != 0 && new > old));
    let want = if old == 0 || new > old { new } else { old };
    assert!(ns.heartbeat.0 == want);
    assert!(ns.max_version == 3 && ns.last_gc_version == 1);
    kani::cover!(r);
    std::mem::forget(ns);
}

#[kani::proof]
#[kani::stub(alloc::fmt::format, kstubs::format_stub)]
#[kani::stub(std::backtrace::Backtrace::capture, kstubs::backtrace_stub)]
fn k_heartbeat_cmp() {
    let a: u64 = kani::any();
    let b: u64 = kani::any();
    assert!((Heartbeat(a) > Heartbeat(b)) == (a > b));
    assert!((Heartbeat(a) < Heartbeat(b)) == (a < b));
    assert!((Heartbeat(a) == Heartbeat(b)) == (a == b));
    kani::cover!(a > b);
}
