// Kani harnesses on message.rs: header codes (C08/C09), complete over all u8.
use super::*;
#[path = "/verif/kani/stubs.rs"]
mod kstubs;

#[kani::proof]
#[kani::stub(alloc::fmt::format, kstubs::format_stub)]
#[kani::stub(std::backtrace::Backtrace::capture, kstubs::backtrace_stub)]
fn k_message_type_codes() {
    let c: u8 = kani::any();
    let mt = MessageType::from_code(c);
    assert!(mt.is_some() == (c <= 3));
    if let Some(t) = mt {
        assert!(t.to_code() == c);
    }
    let pv = ProtocolVersion::from_code(c);
    assert!(pv.is_some() == (c == 0));
    kani::cover!(c == 3);
}

#[kani::proof]
#[kani::stub(alloc::fmt::format, kstubs::format_stub)]
#[kani::stub(std::backtrace::Backtrace::capture, kstubs::backtrace_stub)]
fn k_bad_cluster_roundtrip() {
    let m = ChitchatMessage::BadCluster;
    let mut buf = Vec::new();
    m.serialize(&mut buf);
    assert!(buf.len() == 4 && m.serialized_len() == 4);
    assert!(buf[0] == 0x53 && buf[1] == 0xb0 && buf[2] == 0 && buf[3] == 3);
    kani::cover!(true);
}
