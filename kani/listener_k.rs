// Kani harness on the real InnerListeners::trigger_event (C15 / C09): with an empty registry,
// every UTF-8 key of at most 4 bytes is dispatched without a panic (finding F-2 was exactly a panic
// here). Registry contents cannot be explored by Kani (BTreeMap::insert), see native c15_dispatch.
use super::*;
#[path = "/verif/kani/stubs.rs"]
mod kstubs;

#[kani::proof]
#[kani::unwind(6)]
fn k_trigger_event_utf8_keys() {
    let bytes: [u8; 4] = kani::any();
    let len: usize = kani::any();
    kani::assume(len <= 4);
    if let Ok(key) = std::str::from_utf8(&bytes[..len]) {
        let listeners = InnerListeners::default();
        let node = crate::ChitchatId::new(String::new(), 0, std::net::SocketAddr::new(std::net::IpAddr::V4(std::net::Ipv4Addr::new(127, 0, 0, 1)), 1));
        let ev = KeyChangeEvent { key, value: "", node: &node };
        listeners.trigger_event(ev);
        kani::cover!(len == 4 && bytes[0] >= 0xf0);
        std::mem::forget(listeners);
        std::mem::forget(node);
    }
}
