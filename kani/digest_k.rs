// Kani harness on digest.rs: NodeDigest round trip and layout (C08).
use super::*;
#[path = "/verif/kani/stubs.rs"]
mod kstubs;

#[kani::proof]
#[kani::stub(alloc::fmt::format, kstubs::format_stub)]
#[kani::stub(std::backtrace::Backtrace::capture, kstubs::backtrace_stub)]
fn k_rt_node_digest() {
    let hb: u64 = kani::any();
    let gc: u64 = kani::any();
    let mv: u64 = kani::any();
    let nd = NodeDigest { heartbeat: Heartbeat(hb), last_gc_version: gc, max_version: mv };
    let mut buf = Vec::new();
    nd.serialize(&mut buf);
    assert!(buf.len() == 24 && nd.serialized_len() == 24);
    // documented field order: heartbeat, last_gc_version, max_version (little endian)
    assert!(buf[0] == (hb & 0xff) as u8 && buf[8] == (gc & 0xff) as u8 && buf[16] == (mv & 0xff) as u8);
    assert!(buf[7] == (hb >> 56) as u8 && buf[15] == (gc >> 56) as u8 && buf[23] == (mv >> 56) as u8);
    let mut cur = &buf[..];
    let back = kstubs::ok(NodeDigest::deserialize(&mut cur));
    assert!(back.is_some() && back.unwrap() == nd && cur.is_empty());
    kani::cover!(true);
}
