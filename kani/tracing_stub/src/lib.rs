//! No-op stand-in for the `tracing` crate, patched in under Kani only (kani-compiler 0.68 hits an
//! internal error on the real macros' expansion). Log statements have no effect on program state.
#[macro_export] macro_rules! info { ($($t:tt)*) => {{}}; }
#[macro_export] macro_rules! warn { ($($t:tt)*) => {{}}; }
#[macro_export] macro_rules! debug { ($($t:tt)*) => {{}}; }
#[macro_export] macro_rules! error { ($($t:tt)*) => {{}}; }
#[macro_export] macro_rules! trace { ($($t:tt)*) => {{}}; }
