// Kani harnesses on the real codecs of serialize.rs (C08, C09). Loop-free over the full domain of
// fixed-width values / fixed-length byte strings => complete proofs (grade K).
use std::net::{IpAddr, Ipv4Addr, Ipv6Addr, SocketAddr};

use super::*;
#[path = "/verif/kani/stubs.rs"]
mod kstubs;

fn roundtrip<T: Serializable + Deserializable + PartialEq>(x: &T, expect_len: usize) {
    let mut buf = Vec::new();
    x.serialize(&mut buf);
    assert!(buf.len() == x.serialized_len());
    assert!(buf.len() == expect_len);
    let mut cur = &buf[..];
    let y = kstubs::ok(T::deserialize(&mut cur));
    assert!(y.is_some());
    assert!(y.unwrap() == *x);
    assert!(cur.is_empty());
}

#[kani::proof]
#[kani::stub(alloc::fmt::format, kstubs::format_stub)]
#[kani::stub(std::backtrace::Backtrace::capture, kstubs::backtrace_stub)]
fn k_rt_u8() {
    let x: u8 = kani::any();
    roundtrip(&x, 1);
    let mut b = Vec::new();
    x.serialize(&mut b);
    assert!(b[0] == x);
    kani::cover!(true);
}

#[kani::proof]
#[kani::stub(alloc::fmt::format, kstubs::format_stub)]
#[kani::stub(std::backtrace::Backtrace::capture, kstubs::backtrace_stub)]
fn k_rt_u16() {
    let x: u16 = kani::any();
    roundtrip(&x, 2);
    // documented layout: little endian
    let mut b = Vec::new();
    x.serialize(&mut b);
    assert!(b[0] == (x & 0xff) as u8 && b[1] == (x >> 8) as u8);
    kani::cover!(true);
}

#[kani::proof]
#[kani::stub(alloc::fmt::format, kstubs::format_stub)]
#[kani::stub(std::backtrace::Backtrace::capture, kstubs::backtrace_stub)]
fn k_rt_u32() {
    let x: u32 = kani::any();
    roundtrip(&x, 4);
    let mut b = Vec::new();
    x.serialize(&mut b);
    assert!(b[0] == (x & 0xff) as u8 && b[1] == ((x >> 8) & 0xff) as u8 && b[2] == ((x >> 16) & 0xff) as u8 && b[3] == (x >> 24) as u8);
    kani::cover!(true);
}

#[kani::proof]
#[kani::stub(alloc::fmt::format, kstubs::format_stub)]
#[kani::stub(std::backtrace::Backtrace::capture, kstubs::backtrace_stub)]
fn k_rt_u64() {
    let x: u64 = kani::any();
    roundtrip(&x, 8);
    let mut b = Vec::new();
    x.serialize(&mut b);
    assert!(b[0] == (x & 0xff) as u8 && b[3] == ((x >> 24) & 0xff) as u8 && b[7] == (x >> 56) as u8);
    kani::cover!(true);
}

#[kani::proof]
#[kani::stub(alloc::fmt::format, kstubs::format_stub)]
#[kani::stub(std::backtrace::Backtrace::capture, kstubs::backtrace_stub)]
fn k_rt_bool() {
    let x: bool = kani::any();
    roundtrip(&x, 1);
    // any non-zero byte decodes as true, never panics
    let byte: u8 = kani::any();
    let arr = [byte];
    let y = kstubs::ok(bool::deserialize(&mut &arr[..]));
    assert!(y.is_some() && y.unwrap() == (byte != 0));
    kani::cover!(true);
}

#[kani::proof]
#[kani::stub(alloc::fmt::format, kstubs::format_stub)]
#[kani::stub(std::backtrace::Backtrace::capture, kstubs::backtrace_stub)]
fn k_rt_heartbeat() {
    let x: u64 = kani::any();
    roundtrip(&crate::Heartbeat(x), 8);
    kani::cover!(true);
}

#[kani::proof]
#[kani::stub(alloc::fmt::format, kstubs::format_stub)]
#[kani::stub(std::backtrace::Backtrace::capture, kstubs::backtrace_stub)]
fn k_rt_ipv4() {
    let o: [u8; 4] = kani::any();
    let ip = IpAddr::V4(Ipv4Addr::from(o));
    roundtrip(&ip, 5);
    let mut b = Vec::new();
    ip.serialize(&mut b);
    assert!(b[0] == 4 && b[1] == o[0] && b[4] == o[3]);
    kani::cover!(true);
}

#[kani::proof]
#[kani::stub(alloc::fmt::format, kstubs::format_stub)]
#[kani::stub(std::backtrace::Backtrace::capture, kstubs::backtrace_stub)]
fn k_rt_ipv6() {
    let o: [u8; 16] = kani::any();
    let ip = IpAddr::V6(Ipv6Addr::from(o));
    roundtrip(&ip, 17);
    let mut b = Vec::new();
    ip.serialize(&mut b);
    assert!(b[0] == 6 && b[1] == o[0] && b[16] == o[15]);
    kani::cover!(true);
}

#[kani::proof]
#[kani::stub(alloc::fmt::format, kstubs::format_stub)]
#[kani::stub(std::backtrace::Backtrace::capture, kstubs::backtrace_stub)]
fn k_rt_socket_addr() {
    let o: [u8; 4] = kani::any();
    let port: u16 = kani::any();
    let a = SocketAddr::new(IpAddr::V4(Ipv4Addr::from(o)), port);
    roundtrip(&a, 7);
    let o6: [u8; 16] = kani::any();
    let a6 = SocketAddr::new(IpAddr::V6(Ipv6Addr::from(o6)), port);
    roundtrip(&a6, 19);
    kani::cover!(true);
}

/// every 17-byte string: decoding an IP address fails cleanly or succeeds, never panics, and a
/// success re-encodes to the consumed prefix
#[kani::proof]
#[kani::stub(alloc::fmt::format, kstubs::format_stub)]
#[kani::stub(std::backtrace::Backtrace::capture, kstubs::backtrace_stub)]
fn k_dec_ip_any_bytes() {
    let bytes: [u8; 17] = kani::any();
    let mut cur = &bytes[..];
    let r = kstubs::ok(IpAddr::deserialize(&mut cur));
    if let Some(ip) = r {
        let consumed = 17 - cur.len();
        assert!(consumed == ip.serialized_len());
        assert!(bytes[0] == 4 || bytes[0] == 6);
    } else {
        assert!(bytes[0] != 4 && bytes[0] != 6);
    }
    kani::cover!(true);
}

#[kani::proof]
#[kani::stub(alloc::fmt::format, kstubs::format_stub)]
#[kani::stub(std::backtrace::Backtrace::capture, kstubs::backtrace_stub)]
fn k_block_type_codes() {
    let b: u8 = kani::any();
    let arr = [b];
    let r = kstubs::ok(BlockType::deserialize(&mut &arr[..]));
    assert!(r.is_some() == (b <= 2));
    if let Some(bt) = r {
        let mut out = Vec::new();
        bt.serialize(&mut out);
        assert!(out.len() == 1 && out[0] == b && bt.serialized_len() == 1);
    }
    kani::cover!(b == 2);
}

/// short buffers: fixed-width decoders fail cleanly
#[kani::proof]
#[kani::stub(alloc::fmt::format, kstubs::format_stub)]
#[kani::stub(std::backtrace::Backtrace::capture, kstubs::backtrace_stub)]
fn k_dec_short_buffers() {
    let bytes: [u8; 7] = kani::any();
    let n: usize = kani::any();
    kani::assume(n <= 7);
    assert!(kstubs::ok(u64::deserialize(&mut &bytes[..n])).is_none());
    if n < 4 {
        assert!(kstubs::ok(u32::deserialize(&mut &bytes[..n])).is_none());
    }
    if n < 2 {
        assert!(kstubs::ok(u16::deserialize(&mut &bytes[..n])).is_none());
    }
    if n < 1 {
        assert!(kstubs::ok(u8::deserialize(&mut &bytes[..n])).is_none());
    }
    kani::cover!(n == 0);
}
