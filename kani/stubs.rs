// Stubs used by the Kani harnesses (error-message formatting and backtrace capture dominate CBMC's
// cost on error paths and carry no program state).
#![allow(dead_code)]
pub fn format_stub(_args: core::fmt::Arguments<'_>) -> String {
    String::new()
}
pub fn backtrace_stub() -> std::backtrace::Backtrace {
    std::backtrace::Backtrace::disabled()
}
/// turns a Result into an Option without running the error's drop glue (a vtable call that CBMC
/// resolves by case-splitting over every candidate function)
pub fn ok<T>(r: anyhow::Result<T>) -> Option<T> {
    match r {
        Ok(v) => Some(v),
        Err(e) => {
            std::mem::forget(e);
            None
        }
    }
}
