// Kani harnesses on delta.rs op codec (C08, and the length axiom used by U2).
use super::*;
#[path = "/verif/kani/stubs.rs"]
mod kstubs;

#[kani::proof]
#[kani::stub(alloc::fmt::format, kstubs::format_stub)]
#[kani::stub(std::backtrace::Backtrace::capture, kstubs::backtrace_stub)]
fn k_delta_op_tag_codes() {
    let c: u8 = kani::any();
    let t = kstubs::ok(DeltaOpTag::try_from(c));
    assert!(t.is_some() == (c <= 2));
    if let Some(tag) = t {
        assert!(u8::from(tag) == c);
    }
    kani::cover!(c == 2);
}

/// pairs: axiom_enc_delta_op_len (u2_wire): a SetMaxVersion op is 9 bytes: tag 2 + u64 LE
#[kani::proof]
#[kani::stub(alloc::fmt::format, kstubs::format_stub)]
#[kani::stub(std::backtrace::Backtrace::capture, kstubs::backtrace_stub)]
fn k_len_set_max_version() {
    let v: u64 = kani::any();
    let op = DeltaOp::SetMaxVersion { max_version: v };
    assert!(op.serialized_len() == 9);
    let mut buf = Vec::new();
    op.serialize(&mut buf);
    assert!(buf.len() == 9 && buf[0] == 2 && buf[1] == (v & 0xff) as u8 && buf[8] == (v >> 56) as u8);
    let mut cur = &buf[..];
    let back = kstubs::ok(DeltaOp::deserialize(&mut cur));
    assert!(back.is_some() && cur.is_empty());
    match back.unwrap() {
        DeltaOp::SetMaxVersion { max_version } => assert!(max_version == v),
        _ => assert!(false),
    }
    kani::cover!(true);
}
