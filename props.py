"""Registry: which obligations carry which property (DESIGN.md §7).

grades: P = proved by Verus on the extracted real text; K = complete Kani proof on the real crate;
B = bounded stand-in on the real function (never counted as proved); A = assumed contract.
"""

A_STD = "A-std: vstd's specifications of BTreeMap/HashMap/HashSet/Vec/Option/String plus the std facts added in units/*.vrs as external_body items (ToString is a function of its argument; R13 adapters for Vec::extend / Vec::drain; u8/u16 little-endian codecs)"
A_KEY = "A-key: String and ChitchatId obey the ordering / hashing key model required by vstd's map specs (keys_ok, ids_ok, obeys_key_model), and a &str looks up the String with the same content (str_axioms)"
A_DERIVE = "A-derive: derived PartialEq/PartialOrd on Heartbeat compare the single field; derived Default of DeltaBuilder is the empty builder"
A_SVV = "A-svv (R15): NodeState::set_versioned_value is verified with the BTreeMap Entry idiom read as get_mut / insert (vstd does not specify the Entry API): `match m.entry(k) { Occupied(o) => .. o.get_mut() .., Vacant(v) => v.insert(e) }` is taken to mean `match m.get_mut(&k) { Some(o) => .., None => m.insert(k, e) }`; the key-change event construction is dropped and Listeners::trigger_event(&self) is a no-effect stub; the proved contract is also checked on the real function by the bounded native driver svv_contract"
A_TERM = "A-term: termination of loops desugared by R6 is not proved (exec_allows_no_decreases_clause)"
A_INT = "machine integers: max_version < u64::MAX is a stated precondition of the local write operations; no delta op is 2 GiB long (usize arithmetic in the size bound)"
A_CLOCK = "A-clock: tokio Instant is opaque; verified code only calls Instant::now() and copies the value"
A_ZSTD = "A-zstd: zstd::bulk::compress_to_buffer fails or returns a length <= the destination length and does not change the destination length; nothing is assumed about the bytes"
A_TEST_CFG = "native drivers compile the crate with cfg(test) (deterministic RNG in SortedStaleNodes::into_iter, tokio test-util) and RUSTFLAGS --cfg chitchat_verif"
A_DECODE = "A-decode: deserialize_stream (block reader) is assumed to return some op sequence or an error; its body is exercised by the bounded decode drivers only"
TB = ["verus 0.2026.09.13 (Z3 back end)", "vx/extract.py rewrite rules R1-R14 (vx/RULES.md)", "rustc / cargo for the native and Kani routes"]

U1 = "u1_state"
U5 = "u5_lib"
A_U5 = "U5 restates the failure detector as an opaque type with ghost views (live set, dead set, number of heartbeat reports per member); the three stubs used (report_heartbeat, get_or_create_sampling_window) state what U4 proves / assumes on the real detector"
A_LRU = "A-lru: lru::LruCache::{peek, pop, push} behave as a map (view) and `LruCache::new(..)` is empty; ClusterState::node_state_mut_or_init is VERIFIED with the Entry idiom read as contains_key / get_mut / insert-and-get (R15, second site: `Entry::Occupied(v) => v.into_mut()`, `Entry::Vacant(v) => v.insert(x)`), the bounded drivers c12_timeline / c18_catchup still exercise the real function"
A_ELIDE = "R11: in the C16 view of process_message the three accepting paths are replaced by an arbitrary effect (havoc); no claim is made about them there"
U2 = "u2_wire"

N_SVV = {"test": "verif_svv_contract", "pairs": ["NodeState::apply_delta", "NodeState::set", "NodeState::set_with_version", "NodeState::set_with_ttl"]}
N_C04 = {"test": "verif_c04_scope", "pairs": ["NodeState::check_delta_status", "NodeState::apply_delta", "NodeState::reset_node", "ClusterState::apply_delta"]}
N_C14 = {"test": "verif_c14_scope", "pairs": ["sender_decision", "NodeState::check_delta_status", "NodeState::apply_delta", "staleness_score"]}
N_C06 = {"test": "verif_c06_model", "pairs": ["NodeState::set", "NodeState::set_with_ttl", "NodeState::delete", "NodeState::delete_after_ttl", "NodeState::get", "NodeState::contains_key"]}
N_C09 = {"test": "verif_c09_op_streams", "pairs": ["DeltaBuilder::apply_op", "delta_deserialize", "NodeState::apply_delta", "ClusterState::apply_delta"]}
N_C18 = {"test": "verif_c18_catchup", "pairs": ["Chitchat::reset_node_state_if_update"]}
N_C07S = {"test": "verif_c07_reply_size", "pairs": ["Chitchat::process_message", "DeltaSerializer::try_add_op", "CompressedStreamWriter::append", "CompressedStreamWriter::serialized_len_upperbound_after", "DeltaSerializer::finish"]}
N_KF1 = {"test": "verif_c02_kf1_history", "pairs": []}
N_C15 = {"test": "verif_c15_dispatch", "pairs": []}

PROPS = {
    "C04": {
        "level": "proof",
        "verus": [{"unit": U1, "fns": ["NodeState::check_delta_status", "NodeState::reset_node", "NodeState::apply_delta", "NodeState::new",
                                       "NodeState::monotonic_property", "NodeState::max_version", "NodeState::last_gc_version",
                                       "NodeState::set", "NodeState::set_with_ttl", "NodeState::delete", "NodeState::delete_after_ttl",
                                       "NodeState::set_with_version", "ClusterState::apply_delta", "ClusterState::node_state_mut",
                                       "lemma_admitted_strictly_advances"]},
                  {"unit": U2, "fns": ["DeltaBuilder::apply_op", "DeltaBuilder::flush", "DeltaBuilder::finish", "delta_deserialize"]}],
        "native": [N_SVV, N_C04, N_C06],
        "kani": [],
        "assumptions": [A_STD, A_KEY, A_SVV, A_TERM, A_INT, A_CLOCK, A_DECODE, A_TEST_CFG],
        "level_text": "Verus discharges, on the function text copied from /repo at every run, that (i) check_delta_status is exactly the admission rule, (ii) apply_delta under a well-formed delta never reaches its assert!, keeps (GC watermark, max version) lexicographically monotone, changes nothing on Reject, never lowers a stored version without a reset and only resets with a strictly higher watermark, (iii) ClusterState::apply_delta's assert! is unreachable and untouched members are framed, (iv) every effective local write gets version max+1 and a same-value re-set changes nothing, (v) the decoder only produces well-formed deltas. All for every input and every delta length (loop invariants), i.e. for all (copy, delta) pairs whether or not an honest sender produced them.",
        "level_note": "set_versioned_value's contract is assumed (Entry API) and checked on the real function by the bounded driver svv_contract; u64 overflow of versions is a stated precondition; termination of the two desugared for-loops is not proved; NodeState::set_max_version / set_last_gc_version are public setters outside the property. The paired bounded driver c04_scope (versions/watermarks 0..6, <=3 keys) is the counterexample source and is never counted as proved.",
        "technique": "Verus contracts (requires/ensures/loop invariants) on extracted real functions; bounded native stand-in for the Entry-API callee",
        "explanation": "",
        "design_ref": "DESIGN.md §7 C04",
    },
    "C14": {
        "level": "proof",
        "verus": [{"unit": U1, "fns": ["sender_decision", "staleness_score", "NodeState::check_delta_status", "NodeState::apply_delta",
                                       "lemma_agree", "lemma_sender_offers_iff_ahead", "lemma_admitted_strictly_advances"]},
                  {"unit": U2, "fns": ["DeltaSerializer::try_add_node", "DeltaSerializer::try_add_kv", "DeltaSerializer::try_set_max_version"]}],
        "native": [N_C14],
        "kani": [],
        "assumptions": [A_STD, A_KEY, A_SVV, A_TERM, A_TEST_CFG],
        "level_text": "The sender-side decision (statements of compute_partial_delta_respecting_mtu, sliced mechanically) and the receiver-side admission are each proved equal to a spec function written from the property text, and lemma_agree relates the two for all u64 frontiers: a delta whose header the serializer can produce from the receiver's own digest is never Reject; it is ApplyAfterReset exactly when the receiver's max version and watermark are both below the sender's watermark, and then starts from 0; the sender offers something iff it is ahead; an admitted delta strictly raises (watermark, max version).",
        "level_note": "The map lookups, the stale-node ordering and the outer loops of compute_partial_delta_respecting_mtu are outside Verus' reach (iterator adapters); the composition sender->wire->receiver on the real functions is checked by the bounded driver c14_scope over the property's stated exhaustive scope (frontiers 0..7, <=3 keys of every status, every truncation point) and is labelled bounded.",
        "technique": "Verus contracts on a mechanically sliced fragment + lemma over both contracts; bounded native composition check",
        "explanation": "",
        "design_ref": "DESIGN.md §7 C14",
    },
    "C20": {
        "level": "proof",
        "verus": [{"unit": U1, "fns": ["NodeState::apply_delta", "NodeState::reset_node", "ClusterState::apply_delta"]}],
        "native": [{"test": "verif_c20_callback", "pairs": ["ClusterState::apply_delta"]}],
        "kani": [],
        "assumptions": [A_STD, A_KEY, A_SVV, A_TERM, A_TEST_CFG],
        "level_text": "ClusterState::apply_delta is proved to return true exactly when some member delta whose member is known was admitted as ApplyAfterReset against the entry state (loop invariant over the accumulated flag), and NodeState::apply_delta reports ApplyAfterReset exactly on the path that wipes the copy. So the flag handed to the callback site is raised iff a copy was reset, however many copies the message reset.",
        "level_note": "Chitchat::process_delta (8 lines, calls a Box<dyn Fn()>) is not within Verus' reach (dyn Fn); 'exactly once per message' at that call site is checked by the bounded driver c20_callback with a counting callback over 0/1/2 resets per message and newly created members.",
        "technique": "Verus loop invariant on the extracted ClusterState::apply_delta; bounded native check of the 8-line call site",
        "explanation": "",
        "design_ref": "DESIGN.md §7 C20",
    },
    "C05": {
        "level": "proof",
        "verus": [{"unit": U1, "fns": ["lemma_owner_rejects", "lemma_sender_offers_iff_ahead", "sender_decision", "NodeState::check_delta_status",
                                       "NodeState::apply_delta", "ClusterState::apply_delta"]}],
        "native": [{"test": "verif_c05_owner", "pairs": ["Chitchat::report_heartbeat"]}, N_SVV],
        "kani": [],
        "assumptions": [A_STD, A_KEY, A_SVV, A_TERM, A_TEST_CFG],
        "level_text": "Per-message induction step, proved: a delta that is not ahead of a copy (max version and watermark <= the copy's max version) is Reject (lemma_owner_rejects), and a rejected delta leaves the whole copy untouched (apply_delta / ClusterState::apply_delta Reject clauses); a sender whose copy is not ahead of the digest offers nothing.",
        "level_note": "Premise not machine-checked here: every copy's max version and watermark are <= the owner's max version (C03's frontier clause; one incarnation per ChitchatId is the property's own assumption). The self-heartbeat guard in Chitchat::report_heartbeat is covered by the bounded driver c05_owner (all message kinds carrying the owner's id, stale/duplicated).",
        "technique": "Verus lemma over the admission contract + frame clauses; bounded native check of the glue",
        "explanation": "",
        "design_ref": "DESIGN.md §7 C05",
    },
    "C03": {
        "level": "proof",
        "verus": [{"unit": U1, "fns": ["NodeState::apply_delta", "NodeState::try_set_heartbeat", "ClusterState::apply_delta"]},
                  {"unit": U2, "fns": ["DeltaBuilder::apply_op", "DeltaBuilder::flush", "DeltaSerializer::try_add_kv", "DeltaSerializer::try_add_node",
                                       "DeltaSerializer::try_set_max_version", "DeltaSerializer::try_add_op", "DeletionStatusMutation::from"]}],
        "native": [N_C14, N_C04, N_SVV, {"test": "verif_c07_window", "pairs": ["serialize_stale_nodes"]}],
        "kani": [],
        "assumptions": [A_STD, A_KEY, A_SVV, A_TERM, A_TEST_CFG],
        "level_text": "Induction step over the transport of entries, proved: try_add_kv copies key, value, version and kind of status verbatim into the current member's op; the decoder appends a key-value to the current member only, never accepts an op before a member header or a duplicate member; apply_delta's result contains only old entries or verbatim copies of delta entries and its max version is the old one or the delta's; ClusterState::apply_delta touches only the state with the delta's id; try_set_heartbeat stores the old value or the argument and never decreases.",
        "level_note": "That a delta is a subset of the sender's entries with max version <= the sender's (the contract of compute_partial_delta_respecting_mtu's loops) is checked by the bounded driver c14_scope; wire transport of ops is C08. Lifting the step to all interleavings is the argument 'every mutator of a copy is one of the contracted functions' (fields are private) and is not an obligation.",
        "technique": "Verus contracts on serializer, decoder state machine and apply_delta (verbatim-copy postconditions)",
        "explanation": "",
        "design_ref": "DESIGN.md §7 C03",
    },
    "C02": {
        "level": "other",
        "verus": [{"unit": U1, "fns": ["NodeState::apply_delta", "NodeState::reset_node", "NodeState::check_delta_status"]}],
        "native": [N_KF1, N_C14],
        "kani": [],
        "assumptions": [A_STD, A_KEY, A_SVV, A_TERM, A_TEST_CFG],
        "level_text": "Only the local lemmas are decided: a non-reset application inserts only entries with version > the copy's previous max version, a tombstone/TTL entry at or below the resulting watermark is never inserted, a stored version never decreases without a reset, a reset wipes everything and strictly raises the watermark. Exactness of a copy w.r.t. the owner's history across resets is a relation between several nodes' histories that no per-call contract expresses; it is FALSE on the real code (known finding KF-1), which this check replays on every run.",
        "level_note": "Cross-node exactness is not decided by this technique. KF-1 (truncated reset + stale relay resurrects a deleted key) is a genuine protocol-level defect with no small safe repair; it is listed in known_findings.json and reported as KNOWN-FINDING; any other failed local lemma or bounded check is a new violation.",
        "technique": "Verus local lemmas (postconditions of apply_delta) + native replay of the known-finding history",
        "explanation": "Contracts decide the per-call lemmas only; the global invariant 'every copy is exact up to its frontier' needs an inductive invariant over three nodes' histories (sender watermark vs. receiver watermark after an MTU-truncated reset) which is false as stated (KF-1) and whose corrected form is protocol-level.",
        "design_ref": "DESIGN.md §7 C02",
    },
    "C06": {
        "level": "proof",
        "verus": [{"unit": U1, "fns": ["NodeState::set", "NodeState::set_with_ttl", "NodeState::delete", "NodeState::delete_after_ttl",
                                       "NodeState::set_with_version", "NodeState::get", "NodeState::get_versioned", "NodeState::contains_key",
                                       "VersionedValue::is_deleted", "DeletionStatusMutation::into_status", "NodeState::remove_key_value_internal"]}],
        "native": [N_SVV, N_C06],
        "kani": [],
        "assumptions": [A_STD, A_KEY, A_SVV, A_INT, A_CLOCK, A_TEST_CFG],
        "level_text": "Point operations are proved as total functions on the abstract view Map<String,(value,version,kind)> + (watermark, max version): set / set_with_ttl (no-op on same value and kind, else version max+1, only that key changes), delete / delete_after_ttl (absent key: no-op; else tombstone / TTL mark at version max+1, nothing else changes), get / contains_key / get_versioned (a Deleted entry is invisible, a TTL entry visible). 'Any sequence' follows because each contract speaks about the whole view and preserves the representation invariant.",
        "level_note": "Iteration (key_values, iter_prefix, num_key_values: adapter chains, BTreeMap::range) and gc_keys_marked_for_deletion (retain closure capturing &mut) are outside Verus' reach: they are checked on the real functions by the bounded driver c06_model (all operation sequences up to length 5 over prefix-related keys incl. '' and a multi-byte key, clock steps grace-1/grace/grace+1 on tokio's paused clock; seeded sequences of length 40 in the thorough tier) against a reference map. That part is bounded, not proved.",
        "technique": "Verus contracts over an abstract map view; bounded native model comparison for iteration and GC",
        "explanation": "",
        "design_ref": "DESIGN.md §7 C06",
    },
    "C09": {
        "level": "proof",
        "verus": [{"unit": U2, "fns": ["DeltaBuilder::apply_op", "DeltaBuilder::flush", "DeltaBuilder::finish", "delta_deserialize"]},
                  {"unit": U1, "fns": ["NodeState::check_delta_status", "NodeState::reset_node", "NodeState::apply_delta", "ClusterState::apply_delta",
                                       "ClusterState::node_state_mut", "NodeState::try_set_heartbeat"]}],
        "native": [N_C09, N_C15, {"test": "verif_c09_bytes", "pairs": []}, N_C04, N_SVV],
        "kani": [],
        "assumptions": [A_STD, A_KEY, A_SVV, A_TERM, A_DECODE, A_TEST_CFG],
        "level_text": "Proved: the decoder state machine (DeltaBuilder::apply_op over any op sequence, loop invariant in Delta::deserialize) only yields deltas whose member deltas have max version >= every key-value version, ascending versions and distinct members; under exactly that well-formedness NodeState::apply_delta and ClusterState::apply_delta contain no reachable assert!/panic for ANY such delta (no honesty assumption) and keep frontier monotonicity.",
        "level_note": "The byte-level decoders (cursor functions over &mut &[u8], zstd block reader) are not under contract; they are exercised on the real code by bounded drivers: c09_op_streams (all op sequences <= 3, thorough 4, over a 27-op alphabet x 4 receiver frontiers), c09_bytes (truncations / bit flips / random bytes of valid messages) and c15_dispatch (multi-byte keys reaching the listener scan). Bounded, never counted as proved.",
        "technique": "Verus invariant of the decoder state machine + panic-freedom (assert! as proof obligation) of the application path; bounded native decode drivers",
        "explanation": "",
        "design_ref": "DESIGN.md §7 C09",
    },
    "C07": {
        "level": "proof",
        "verus": [{"unit": U2, "fns": ["CompressedStreamWriter::serialized_len_upperbound_after", "CompressedStreamWriter::append",
                                       "CompressedStreamWriter::flush_block", "CompressedStreamWriter::finish", "CompressedStreamWriter::with_block_threshold",
                                       "DeltaSerializer::with_mtu", "DeltaSerializer::try_add_op", "DeltaSerializer::finish",
                                       "DeltaSerializer::try_add_kv", "DeltaSerializer::try_add_node", "DeltaSerializer::try_set_max_version",
                                       "DeltaBuilder::apply_op"]}],
        "native": [N_C07S, {"test": "verif_c07_window", "pairs": []}, {"test": "verif_c08_op_lengths", "pairs": []}],
        "kani": [],
        "assumptions": [A_STD, A_ZSTD, A_INT, A_TEST_CFG],
        "level_text": "Size arithmetic proved under A-zstd only: the upper bound function equals the documented two-case formula; flush_block consumes exactly min(pending, threshold) bytes and emits 3 + at most that many; append keeps pending <= threshold and, for an item that fits one block, keeps W = |output| + (pending>0 ? 3+pending : 0) + 1 within the announced bound; finish returns at most W bytes; hence an op accepted by try_add_op keeps W <= mtu and DeltaSerializer::finish announces 1 <= serialized_len <= mtu. The asserts at serialize.rs (item length) and delta.rs (mtu >= 100, apply_op is ok) are unreachable under the stated preconditions. Strictly ascending key-value versions per member are an invariant of the builder.",
        "level_note": "For an op larger than the 16 KiB block the hand-derived bound is short by 3 bytes per extra block if every block is incompressible; the contract states the one-block case and the gap is an unchecked compressibility assumption. The content claim (gap-free ascending window, nothing at or below the start, members scheduled for deletion skipped) is the contract of stale_key_values + the loops of compute_partial_delta_respecting_mtu (iterator chains): bounded driver c07_window; the end-to-end reply length incl. the 4-byte header and own digest: bounded driver c07_reply_size.",
        "technique": "Verus contracts with a ghost size measure on the extracted stream writer / serializer; bounded native checks for content and end-to-end length",
        "explanation": "",
        "design_ref": "DESIGN.md §7 C07",
    },
    "C15": {
        "level": "exploration",
        "verus": [],
        "native": [N_C15, N_SVV],
        "kani": [],
        "assumptions": [A_TEST_CFG],
        "level_text": "Bounded only: prefix matching is string reasoning neither verifier does, and the dispatch iterates BTreeMap::range / HashMap::values over boxed closures. The real Listeners::trigger_event is run on all keys of <= 3 symbols over {a, b, é, 🦀} against every single prefix and against prefix sets of size 2..8 with dropped and forever handles, and compared with str::strip_prefix; the trigger condition in set_versioned_value (accepted and not Deleted) is part of svv_contract.",
        "level_note": "No deductive obligation is generated for C15; it is claimed at exploration level with the property's own exhaustive scope, and the finding F-2 it exposed is repaired (known_findings.json).",
        "technique": "bounded native enumeration of the real dispatch (no contract within reach: string prefix reasoning, dyn Fn)",
        "explanation": "",
        "design_ref": "DESIGN.md §7 C15",
    },
    "C18": {
        "level": "exploration",
        "verus": [],
        "native": [N_C18],
        "kani": [],
        "assumptions": [A_TEST_CFG],
        "level_text": "Bounded: the real Chitchat::reset_node_state_if_update over the property's list of copies (absent, empty, mid-reset, ahead, behind, removed-and-remembered) x supplied states (key sets over 3 keys, versions {1,4,7}, every status, max version and watermark consistent or not), checking no panic, (watermark, max version) never lowered, key set replaced with the newer version kept, no re-creation of a collected member, live set untouched.",
        "level_note": "Until the U5 unit puts the function under a Verus contract this is a bounded check only; the finding F-4 it exposed is repaired.",
        "technique": "bounded native enumeration of the real catch-up entry point",
        "explanation": "",
        "design_ref": "DESIGN.md §7 C18",
    },
}

U4 = "u4_fd"
A_FLOAT = "A-float: NONE - floating point values are uninterpreted in U4 (f64 arithmetic routed through value-less adapters); no claim treats machine floats as reals"
A_CLOCK2 = "A-clock: Instant/Duration are natural numbers of nanoseconds; Instant + Duration adds, comparisons compare (time_axioms in u4_fd.vrs)"
A_FD_ENTRY = "A-fd-entry (R15, third site): FailureDetector::get_or_create_sampling_window is VERIFIED with `map.entry(k).or_insert_with(closure)` routed through an adapter taking the REAL closure (contract: the stored value for k, after storing closure() if there was none - std's documented behaviour); the configuration premise sampling_window_size >= 1 is part of fd_wf; HashMap::get_mut and `&HashMap` iteration are specified by hand after vstd's BTreeMap specs; the bounded driver fd_model still exercises the real function"
N_FD = {"test": "verif_fd_model", "pairs": ["FailureDetector::update_node_liveness", "FailureDetector::garbage_collect", "FailureDetector::report_heartbeat", "SamplingWindow::report_heartbeat", "SamplingWindow::phi"]}
N_C11S = {"test": "verif_c11_steady", "pairs": []}
N_C12 = {"test": "verif_c12_timeline", "pairs": []}

PROPS.update({
    "C10": {
        "level": "proof",
        "verus": [{"unit": U4, "fns": ["SamplingWindow::phi", "SamplingWindow::report_heartbeat", "SamplingWindow::reset", "BoundedArrayStats::append",
                                       "BoundedArrayStats::len", "BoundedArrayStats::clear", "FailureDetector::phi", "FailureDetector::update_node_liveness",
                                       "FailureDetector::report_heartbeat"]},
                  {"unit": U1, "fns": ["NodeState::try_set_heartbeat"]}],
        "native": [N_FD],
        "kani": [],
        "assumptions": [A_STD, A_KEY, A_FLOAT, A_CLOCK2, A_FD_ENTRY, A_TEST_CFG],
        "level_text": "Only the discrete clause is decided by proof: phi is None unless the window holds at least one interval and a last heartbeat; a window gains an interval only on a report that follows an earlier report and only if the interval is <= max_interval; update_node_liveness puts a member without phi into the dead set and clears its window; BoundedArrayStats::append is index-safe and never exceeds the capacity (capacity >= 1). Hence a member with fewer than two usable heartbeat observations is never reported live, for every history.",
        "level_note": "NOT decided: the delay bound 'silent for longer than phi_threshold x max(max_interval, initial_interval) => dead' is an inequality over f64 values computed from an incrementally maintained floating-point sum; Verus has no float semantics and the premise sum <= len x max_interval is not an invariant of the drifting sum, so no obligation is generated for it (treating floats as reals would be an unlisted assumption). It is only exercised by the bounded driver fd_model (all event histories up to length 5/6 over 2 members with boundary clock steps + seeded histories), labelled bounded.",
        "technique": "Verus contracts on the extracted detector for the evidence-counting clause; bounded native reference-model comparison for the float-valued bound",
        "explanation": "",
        "design_ref": "DESIGN.md §7 C10",
    },
    "C11": {
        "level": "proof",
        "verus": [{"unit": U1, "fns": ["NodeState::try_set_heartbeat"]},
                  {"unit": U4, "fns": ["SamplingWindow::report_heartbeat", "SamplingWindow::phi", "FailureDetector::report_heartbeat",
                                       "FailureDetector::update_node_liveness", "FailureDetector::phi"]}],
        "native": [N_FD, N_C11S, {"test": "verif_c05_owner", "pairs": []}],
        "kani": [],
        "assumptions": [A_STD, A_KEY, A_DERIVE, A_FLOAT, A_CLOCK2, A_FD_ENTRY, A_TEST_CFG],
        "level_text": "Evidence counting is decided by proof: try_set_heartbeat returns true exactly for a strictly greater value over a non-zero stored one (equal, lower and replayed values return false and leave the copy untouched; the first value is stored silently); FailureDetector::report_heartbeat never changes the live/dead classification and is the only writer of the window / last heartbeat; live after an evaluation implies a window with >= 1 interval and a last heartbeat, i.e. >= 2 reports.",
        "level_note": "The call site Chitchat::report_heartbeat (detector fed only when try_set_heartbeat returned true) is covered by bounded drivers until U5 puts it under contract. NOT decided: the steady-heartbeat accuracy sentence (floating-point inequality, same reason as C10); it is exercised by the bounded driver c11_steady on concrete arrival patterns.",
        "technique": "Verus contracts (strictness of try_set_heartbeat, window discipline); bounded native runs for the float-valued accuracy clause",
        "explanation": "",
        "design_ref": "DESIGN.md §7 C11",
    },
    "C12": {
        "level": "proof",
        "verus": [{"unit": U4, "fns": ["FailureDetector::update_node_liveness", "FailureDetector::garbage_collect", "FailureDetector::report_heartbeat"]}],
        "native": [N_FD, N_C12, {"test": "verif_c07_window", "pairs": []}],
        "kani": [],
        "assumptions": [A_STD, A_KEY, A_CLOCK2, A_FD_ENTRY, A_TERM, A_TEST_CFG],
        "level_text": "Classification is decided by proof on the extracted detector: after update_node_liveness(id) the member is in exactly one of live/dead, nobody else's membership or time of death changes, disjointness is an invariant, the time of death is kept while dead; garbage_collect returns exactly the members dead for >= the grace period at the instant it reads, removes them from the dead map and the samples and touches nobody else (two loop invariants over HashMap iteration).",
        "level_note": "scheduled_for_deletion_nodes (filter_map + Duration::div_f32), the exclusion filters in compute_digest / compute_partial_delta_respecting_mtu, the self-id guards of update_nodes_liveness and the re-creation guard in report_heartbeat are iterator chains / lib.rs glue: bounded drivers fd_model (reference detector incl. the grace/2 set), c12_timeline (paused clock at grace/2 -1/0/+1 ms and grace -1/0/+1 ms, every outgoing message decoded, re-learning with heartbeat known-1/known/known+1) and c07_window (every subset scheduled). Bounded, not proved.",
        "technique": "Verus contracts + loop invariants on the extracted failure detector; bounded native timeline for quarantine / removal / re-creation",
        "explanation": "",
        "design_ref": "DESIGN.md §7 C12",
    },
})

A_STALE = "A-stale: StaleNode::stale_key_values (filter + itertools sort) is assumed to yield exactly the member's entries above the start version in strictly ascending version order; SortedStaleNodes::into_iter (BTreeMap + shuffle) is modelled as some ordering of exactly the members offered (each once); both are exercised on the real functions by the bounded drivers c07_window / c14_scope"
for _p in ("C07", "C14", "C05", "C12"):
    PROPS[_p]["verus"].append({"unit": U2, "fns": ["ClusterState::offer_stale_nodes", "lemma_has_id_push", "sender_decision", "staleness_score"]})
    if A_STALE not in PROPS[_p]["assumptions"]:
        PROPS[_p]["assumptions"].append(A_STALE)
PROPS["C07"]["level_text"] += " The first loop of that function (sliced, R10) is proved to offer exactly the members that are not scheduled for deletion and whose copy is ahead of the peer's digest, each once, with the start version of the sender-side decision."
PROPS["C12"]["level_text"] += " The member-selection loop of compute_partial_delta_respecting_mtu is proved never to offer a member of the scheduled-for-deletion set."
for _p in ("C07", "C03", "C14", "C02"):
    PROPS[_p]["verus"].append({"unit": U2, "fns": ["serialize_stale_nodes", "lemma_prefix_is_ok", "lemma_ok_window", "lemma_ok_entries", "lemma_ok_sorted"]})
    PROPS[_p]["assumptions"].append(A_STALE)
PROPS["C07"]["verus"].append({"unit": U5, "fns": ["Chitchat::process_message__budget"]})
PROPS["C07"]["assumptions"] += [A_U5, "C07 budget view of process_message: the calls around the arithmetic (heartbeat reporting, scheduled-for-deletion set, compute_digest, compute_partial_delta_respecting_mtu, process_delta) are stubs; the premise 'own digest leaves >= 100 bytes of room' is the property's own"]
PROPS["C07"]["level_text"] += " The budget arithmetic of the SYN-ACK and ACK replies (lib.rs) is proved on the extracted process_message: no underflow, DeltaSerializer::with_mtu's assert unreachable, and header (4) + own digest + budget <= 65,507."
PROPS["C07"]["level_text"] += " The serializer loop of compute_partial_delta_respecting_mtu (sliced mechanically, R10) is proved to write members in the order offered, every member but the last completely and the last one as a prefix of its version-sorted stale entries - i.e. for each member included, exactly the sender's entries in (start, delta max version], ascending and gap-free, so running out of space only drops the highest versions."
PROPS["C07"]["level_note"] = "For an op larger than the 16 KiB block the hand-derived bound is short by 3 bytes per extra block if every block is incompressible; the proved statement is 'mtu <= 16384 => serialized_len <= mtu' plus the one-block step, and the gap is an unchecked compressibility assumption. The content clause rests on the assumed contract of stale_key_values (A-stale) and of the first loop (which members are offered with which start version: sender_decision is proved, the map iteration and the scheduled-for-deletion filter are not); both are checked on the real function by the bounded driver c07_window; the end-to-end reply length incl. the 4-byte header and own digest by c07_reply_size."
PROPS["C05"]["verus"].append({"unit": U5, "fns": ["Chitchat::report_heartbeat", "Chitchat::self_chitchat_id"]})
PROPS["C05"]["assumptions"] += [A_U5, A_LRU]
PROPS["C05"]["level_note"] = "Premise not machine-checked here: every copy's max version and watermark are <= the owner's max version (C03's frontier clause; one incarnation per ChitchatId is the property's own assumption). Chitchat::report_heartbeat is under contract in U5 (a digest entry carrying the local id changes nothing at all); the end-to-end statement over whole messages is additionally exercised by the bounded driver c05_owner."
PROPS["C11"]["verus"].append({"unit": U5, "fns": ["Chitchat::report_heartbeat"]})
PROPS["C11"]["assumptions"] += [A_U5, A_LRU]
PROPS["C11"]["level_note"] = "Chitchat::report_heartbeat is under contract in U5: the detector's report count for a member moves by exactly one iff the digest heartbeat is strictly greater than a non-zero stored one, and never for anybody else. NOT decided: the steady-heartbeat accuracy sentence (floating-point inequality, same reason as C10); it is exercised by the bounded driver c11_steady on concrete arrival patterns."
PROPS["C12"]["verus"].append({"unit": U5, "fns": ["Chitchat::report_heartbeat", "ClusterState::last_heartbeat_if_deleted"]})
PROPS["C12"]["assumptions"] += [A_U5, A_LRU]
PROPS["C12"]["level_text"] += " The re-creation guard is proved on Chitchat::report_heartbeat (U5): a removed-and-remembered member is re-created only by a heartbeat strictly above the remembered one, a (re-)created member stores its first heartbeat without any evidence being reported, and a digest heartbeat never changes the live/dead classification."
PROPS["C18"] = {
    "level": "proof",
    "verus": [{"unit": U5, "fns": ["Chitchat::reset_node_state_if_update", "NodeState::set_max_version", "NodeState::set_last_gc_version",
                                   "NodeState::remove_key_value_internal", "ClusterState::last_heartbeat_if_deleted", "ClusterState::node_state_mut"]}],
    "native": [N_C18],
    "kani": [],
    "assumptions": [A_STD, A_KEY, A_SVV, A_TERM, A_U5, A_LRU, A_TEST_CFG,
                    "the iterator-adapter statement building the previous key set is replaced by a stub returning the copy's key set (R11); HashSet iteration goes through an R13 adapter"],
    "level_text": "Proved on the extracted real function for every existing copy, every supplied iterator (generic impl Iterator, loop invariant), every max version and watermark: the assert! at the end is unreachable (no panic); a member remembered as garbage collected is not re-created; other members, the failure detector's live/dead sets and evidence counts are untouched (never live by itself); an existing copy's (GC watermark, max version) never decreases - it is left as it is when already up to date or when the fetched state is older than its watermark, and is otherwise strictly raised with the watermark max(old, supplied).",
    "level_note": "'replaces its key set with the supplied one, keeping the newer version of a key present in both' is not in the Verus contract (it needs the prophetic content of a generic iterator); it is checked by the bounded driver c18_catchup over the property's list of copies x supplied states. The callee contracts of set_versioned_value and node_state_mut_or_init are assumed (Entry API) and bounded-checked.",
    "technique": "Verus contract + loop invariants on the extracted generic function; bounded native check of the key-set clause",
    "explanation": "",
    "design_ref": "DESIGN.md §7 C18",
}
PROPS["C16"] = {
    "level": "proof",
    "verus": [{"unit": U5, "fns": ["Chitchat::process_message", "Chitchat::update_self_heartbeat", "Chitchat::cluster_id", "Chitchat::self_node_state",
                                   "NodeState::inc_heartbeat", "Heartbeat::inc"]}],
    "native": [{"test": "verif_c16_isolation", "pairs": ["Chitchat::process_message"]}],
    "kani": [],
    "assumptions": [A_STD, A_KEY, A_LRU, A_ELIDE, A_TEST_CFG, "the local node's state exists and its heartbeat counter is below u64::MAX (chitchat_wf; Heartbeat::inc panics on overflow by design)"],
    "level_text": "Proved on the extracted process_message (accepting paths elided, R11): a SYN whose cluster id differs from the local one - as sequences of characters, so empty, prefix-of-each-other and case variants are simply different - is answered with BadCluster before the digest is looked at, and the whole Chitchat value afterwards equals the entry value except for the local heartbeat counter (+1): membership, every other copy, the removed-member memory, the failure detector are untouched. A received BadCluster yields no reply and has the same frame.",
    "level_note": "The two-cluster sentence follows because only SYN carries a cluster id, SYN-ACK is emitted only by the accepting path and ACK only on SYN-ACK; that argument is an explanation, not an obligation. It is exercised by the bounded driver c16_isolation (two clusters with cross-configured seeds, all small message schedules with loss and duplication).",
    "technique": "Verus contract with a frame postcondition on the extracted function, non-rejecting arms elided",
    "explanation": "",
    "design_ref": "DESIGN.md §7 C16",
}


U3 = "u3_decode"
U3_FNS = ["impl&%2::deserialize", "impl&%3::deserialize", "impl&%4::deserialize", "impl&%5::deserialize", "impl&%6::deserialize", "impl&%7::deserialize",
          "IpVersion::ip_version_try_from", "IpAddr::deserialize", "alloc::string::String::deserialize", "SocketAddr::deserialize", "ChitchatId::deserialize",
          "Heartbeat::deserialize", "BlockType::deserialize", "deserialize_stream", "DeletionStatusMutation::status_try_from",
          "DeletionStatusMutation::deserialize", "KeyValueMutation::deserialize", "NodeDigest::deserialize", "DeltaOpTag::op_tag_try_from",
          "DeltaOp::deserialize", "Digest::deserialize", "ChitchatMessage::deserialize", "MessageType::from_code", "ProtocolVersion::from_code"]
PROPS["C09"]["verus"].append({"unit": U3, "fns": U3_FNS})
PROPS["C09"]["assumptions"].append("A-std (decoders): slice prefix lookup `get(..n)`, `BufRead::consume` / `Buf::advance` on `&[u8]` (precondition n <= remaining, documented panic otherwise), `[u8; N]::try_from(&slice[..N])`, `from_le_bytes`, `str::from_utf8`, `Option::copied`, Ipv4Addr/Ipv6Addr/SocketAddr constructors are external_body adapters in units/u3_decode.vrs whose bodies are the original idioms; A-zstd: decompress_to_buffer fails or returns a length <= the destination length")
PROPS["C09"]["level_text"] = "Proved, for every byte string of any length: every byte-level decoder of the wire format ([u8;N], u8..u64, bool, IpAddr, String, SocketAddr, ChitchatId, Heartbeat, NodeDigest, Digest, DeletionStatusMutation, KeyValueMutation, DeltaOp, BlockType, the block stream reader incl. its bounded decompression, and ChitchatMessage with its header) is panic-free on its real text - Verus discharges every index / slice-range / overflow / unwrap / cursor-advance obligation of the extracted bodies - and only ever consumes from its cursor. " + PROPS["C09"]["level_text"]
PROPS["C09"]["level_note"] = "The std / bytes / zstd calls the decoders make are contracts in the unit's prelude (assumptions, listed). The listener dispatch reached by an applied key (string slicing) is proved panic-free by Kani for keys <= 4 bytes only and otherwise exercised by c15_dispatch. Bounded drivers c09_op_streams (all op sequences <= 3 / 4 over a 27-op alphabet x 4 receiver frontiers) and c09_bytes (truncations / bit flips / random bytes) remain as counterexample sources and for the end-to-end claim; they are never counted as proved."


def K(h, what, pairs=(), grade="K", tiers=("quick", "thorough")):
    return {"harness": h, "what": what, "pairs": list(pairs), "grade": grade, "tiers": list(tiers)}


K_CDS = K("k_check_delta_status", "check_delta_status equals the admission rule for all u64 frontiers and delta headers (real crate)", ["NodeState::check_delta_status"])
K_TSH = K("k_try_set_heartbeat", "try_set_heartbeat: true iff non-zero stored value and strictly greater argument; stored value; frame (all u64)", ["NodeState::try_set_heartbeat"])
K_HBC = K("k_heartbeat_cmp", "derived comparisons on Heartbeat compare the field (A-derive cross-check)")
K_LSN = K("k_trigger_event_utf8_keys", "InnerListeners::trigger_event with an empty registry does not panic on any UTF-8 key of <= 4 bytes")
PROPS["C04"]["kani"] = [K_CDS]
PROPS["C14"]["kani"] = [K_CDS]
PROPS["C11"]["kani"] = [K_TSH, K_HBC]
PROPS["C03"]["kani"] = [K_TSH]
PROPS["C09"]["kani"] = [K_LSN, K_CDS]
PROPS["C15"]["kani"] = [K_LSN]
A_KANI = "Kani harnesses replace the `tracing` dependency by a no-op crate (kani-compiler ICE on the real macros), stub alloc::fmt::format and Backtrace::capture on error paths and forget anyhow errors instead of dropping them; none of these carries program state"
for _p in ("C04", "C14", "C11", "C03", "C09", "C15"):
    PROPS[_p]["assumptions"].append(A_KANI)
PROPS["C15"]["level"] = "proof"
PROPS["C15"]["level_text"] = "Proved (Kani, real crate, complete over the stated domain): InnerListeners::trigger_event with an empty registry does not panic for any UTF-8 key of at most 4 bytes (every first-character width). Everything else is bounded only: prefix matching is string reasoning neither verifier does, and the dispatch iterates BTreeMap::range / HashMap::values over boxed closures (Kani cannot build the registry: BTreeMap::insert). The real Listeners::trigger_event is run on all keys of <= 3 symbols over {a, b, é, 🦀} against every single prefix and against prefix sets of size 2..8 with dropped and forever handles, and compared with str::strip_prefix; the trigger condition in set_versioned_value (accepted and not Deleted) is part of svv_contract."
PROPS["C15"]["level_note"] = "Only the panic-freedom obligation is a proof; 'exactly the matching subscriptions are called once' is a bounded check over the property's own exhaustive scope and is labelled so. The finding F-2 it exposed is repaired (known_findings.json)."
PROPS["C15"]["technique"] = "Kani proof of panic-freedom of the real dispatch entry (all short UTF-8 keys) + bounded native enumeration against str::strip_prefix"

PROPS.update({
    "C08": {
        "level": "proof",
        "verus": [{"unit": U2, "fns": ["BlockType::serialize", "BlockType::serialized_len", "CompressedStreamWriter::finish", "DeltaSerializer::finish"]}],
        "native": [{"test": "verif_c08_messages", "pairs": []}, {"test": "verif_c08_op_lengths", "pairs": []}, N_C14],
        "kani": [K("k_rt_u8", "u8 round trip, exact length, layout", tiers=("thorough",)), K("k_rt_u16", "u16 round trip, little-endian layout"), K("k_rt_u32", "u32 round trip, layout", tiers=("thorough",)),
                 K("k_rt_u64", "u64 round trip, layout"), K("k_rt_bool", "bool round trip; every byte decodes", tiers=("thorough",)), K("k_rt_heartbeat", "Heartbeat round trip", tiers=("thorough",)),
                 K("k_rt_ipv4", "IPv4 round trip, tag 4 + octets"), K("k_rt_ipv6", "IPv6 round trip, tag 6 + octets", tiers=("thorough",)), K("k_rt_socket_addr", "SocketAddr round trip (v4 and v6)"),
                 K("k_dec_ip_any_bytes", "every 17-byte string decodes as an IP address or fails cleanly; consumed length = announced length", tiers=("thorough",)),
                 K("k_block_type_codes", "BlockType: exactly codes 0..2 decode, re-encode to the same byte"), K("k_dec_short_buffers", "fixed-width decoders fail cleanly on short buffers", tiers=("thorough",)),
                 K("k_deletion_status_codes", "DeletionStatusMutation: exactly codes 0..2, round trip"), K("k_status_conversions", "status <-> wire code conversions keep the kind", tiers=("thorough",)),
                 K("k_rt_node_digest", "NodeDigest round trip, field order heartbeat/last_gc/max_version"), K("k_message_type_codes", "message type / protocol version codes"),
                 K("k_bad_cluster_roundtrip", "BadCluster is the 4-byte header", tiers=("thorough",)), K("k_delta_op_tag_codes", "op tags: exactly 0..2", tiers=("thorough",)),
                 K("k_len_set_max_version", "SetMaxVersion op: 9 bytes, tag 2 + u64 LE, round trip")],
        "assumptions": [A_STD, A_ZSTD, A_KANI, A_TEST_CFG],
        "level_text": "Proved by Kani on the real crate, loop-free over the full domain (hence complete, not bounded): for u8/u16/u32/u64/bool/Heartbeat/IpAddr/SocketAddr/NodeDigest/DeletionStatusMutation/BlockType/DeltaOpTag/MessageType/ProtocolVersion and the SetMaxVersion op, deserialize(serialize(x)) = x consuming exactly serialized_len(x) bytes, the bytes follow the documented little-endian / tag layout, and invalid tags or short buffers are errors, not panics. Proved by Verus: the stream writer's finish returns at least the end tag and DeltaSerializer::finish announces exactly the finished buffer's length.",
        "level_note": "Variable-length composites (String, ChitchatId, KeyValueMutation, DeltaOp Node/KeyValue, Digest, Delta with real zstd incl. multi-block and uncompressed blocks, whole ChitchatMessage) are outside both verifiers (str byte reasoning, BTreeMap iteration, FFI): bounded driver c08_messages compares the real encoder with an independent decoder and five block layouts of an independent encoder with the real decoder over the property's length classes (0,1,255,256,16383..16385,65535), IPv4/IPv6, multi-byte ids, every status, empty members, SetMaxVersion tails. delta.rs:227 (recorded length == payload length) is exercised there and in c14_scope/c07_window, not proved.",
        "technique": "Kani complete proofs of the fixed-width codecs on the real crate; bounded native differential check against an independent codec for composites",
        "explanation": "",
        "design_ref": "DESIGN.md §7 C08",
    },
    "C17": {
        "level": "proof",
        "verus": [],
        "native": [],
        "kani": [],
        "kani_files": [{"unit": "k6_select", "args": ["--no-overflow-checks"],
                        "harnesses": [{"name": "k_select_structure", "what": "at most 3 distinct peers from live (or all peers when none is live); dead from the dead set; seed from the seed set; no panic"},
                                      {"name": "k_select_forced", "what": "no live peer and a seed exists => seed contacted; dead outnumber live => dead contacted; empty dead/seed set => None", "timeout": 2400}]}],
        "assumptions": ["A-rand: IteratorRandom::choose returns Some(member) iff the iterator is non-empty; sample(rng, k) returns min(k, size) distinct members; Rng::random::<f64>() is a multiple of 2^-53 in [0,1) (prelude of units/k6_select.krs)",
                        "sets are abstract: sizes symbolic < 2^20, membership of an address in another pool is arbitrary (pools may overlap arbitrarily)",
                        "CBMC's extra float checks (NaN on 0/0) are switched off with --no-overflow-checks: 0/0 is NaN in Rust, compares false and is not a panic; Rust's own overflow / bounds / unwrap panics stay checked"],
        "level_text": "The three selection functions of server.rs are copied verbatim from /repo on every run into a stand-alone Kani file whose prelude replaces HashSet / IteratorRandom / Rng by nondeterministic stubs obeying A-rand; CBMC proves, for all set sizes < 2^20 and all RNG outputs (floating point bit-precise, the loop over <= 3 sampled nodes fully unwound with unwinding assertions): at most three distinct peers from the live pool (or all peers when none is live), the dead / seed peer comes from its set, a seed is always contacted when no live peer is known and a seed exists, a dead peer is always contacted when dead peers outnumber live ones, no panic.",
        "level_note": "The pools themselves (built in gossip_multiple from the cluster state with self filtered) are async glue outside the technique; the stubs' contracts for rand are assumptions. Sizes are bounded by 2^20 (stated), the selection loop bound 3 is the code's own GOSSIP_COUNT, checked by unwinding assertions.",
        "technique": "Kani/CBMC on mechanically extracted function text with contract stubs for externals",
        "explanation": "",
        "design_ref": "DESIGN.md §7 C17",
    },
})

PROPS["C06"]["verus"].append({"unit": U4, "fns": ["gc_retain_entry", "DeletionStatus::time_of_start_scheduled_for_deletion"]})
PROPS["C06"]["assumptions"] += [A_CLOCK2, "BTreeMap::retain keeps exactly the entries for which the closure returns true and calls it once per entry (std's documented behaviour); only the closure body of gc_keys_marked_for_deletion is under contract (R10 slice)"]
PROPS["C06"]["level_text"] += " The tombstone-GC predicate (the closure body handed to BTreeMap::retain, sliced mechanically) is proved: an entry is collected iff it is Deleted or TTL-marked and at least one grace period old, never a live or younger one, and the running watermark becomes the max of itself and every collected version (never lowered)."
for _p in ("C07", "C14", "C03"):
    PROPS[_p]["verus"].append({"unit": U1, "fns": ["stale_filter_pred", "stale_sort_key"]})
PROPS["C06"]["verus"].append({"unit": U1, "fns": ["key_values_filter_pred", "iter_prefix_filter_pred"]})
PROPS["C12"]["verus"].append({"unit": U4, "fns": ["scheduled_pred"]})
PROPS["C12"]["level_text"] += " The quarantine predicate (closure body of scheduled_for_deletion_nodes) is proved: a dead member is scheduled iff time of death + half grace < now."
for _p in ("C05", "C11", "C12"):
    PROPS[_p]["verus"].append({"unit": U5, "fns": ["Chitchat::report_heartbeats_in_digest"]})
PROPS["C12"]["verus"].append({"unit": U5, "fns": ["ClusterState::remove_node"]})
PROPS["C05"]["level_text"] += " Chitchat::report_heartbeats_in_digest (loop over any digest) is proved to leave the local node's own copy - heartbeat included - and the live/dead classification untouched, and not to touch members the digest does not mention."
PROPS["C12"]["level_text"] += " ClusterState::remove_node is proved to drop the member's state and to remember exactly the heartbeat known at removal."
PROPS["C05"]["verus"].append({"unit": U5, "fns": ["Chitchat::process_message__budget", "Chitchat::process_delta", "Chitchat::update_self_heartbeat", "lemma_honest_rejects"]})
PROPS["C05"]["level_text"] += " The per-message step is proved through the real glue (Chitchat::process_message with all three accepting paths kept, process_delta, report_heartbeats_in_digest, update_self_heartbeat): if what a SYN / SYN-ACK / ACK says about the local node is not ahead of the local node's own max version - all an honest peer can hold - then after processing it the node's own key-values, versions and GC watermark are untouched and its heartbeat moved by exactly its own activity (+1)."
PROPS["C20"]["verus"].append({"unit": U5, "fns": ["Chitchat::process_delta"]})
PROPS["C20"]["level_text"] += " Chitchat::process_delta is proved to reach the callback invocation only when that flag is true (the call site carries the flag as a ghost argument that Verus checks), i.e. never for messages that only apply incremental updates, are rejected or carry nothing."
PROPS["C20"]["level_note"] = "The callback itself is a Box<dyn Fn()> (opaque); that it is invoked exactly once - not zero times - when the flag is raised is read off the three-line call site and checked by the bounded driver c20_callback with a counting callback (0/1/2 resets per message, newly created members)."
PROPS["C12"]["verus"].append({"unit": U5, "fns": ["Chitchat::update_nodes_liveness"]})
PROPS["C12"]["level_text"] += " The two self-id guards of Chitchat::update_nodes_liveness are proved (watch-channel part elided, R11): the local node is never handed to the detector for evaluation and never removed whatever the node GC returns; every other known member is evaluated; an evaluation never adds members."
PROPS["C10"]["verus"].append({"unit": U4, "fns": ["SamplingWindow::new"]})
PROPS["C10"]["level_text"] += " SamplingWindow::new is proved to install exactly the configured max_interval as the interval filter of a fresh, empty window (BoundedArrayStats::with_capacity assumed, A-std)."
PROPS["C11"]["verus"].append({"unit": U5, "fns": ["ClusterState::remove_node", "Chitchat::update_nodes_liveness"]})
PROPS["C11"]["native"].append(N_C12)
PROPS["C11"]["level_text"] += " ClusterState::remove_node is proved to remember exactly the heartbeat known at removal for every removed member (whatever its key-values), which is what the re-creation guard of report_heartbeat compares a later digest against: a replay of the heartbeat last seen never re-creates the member."
PROPS["C02"]["native"].append(N_C06)
PROPS["C02"]["verus"].append({"unit": U4, "fns": ["gc_retain_entry"]})
PROPS["C02"]["level_text"] += " The GC predicate (closure body of gc_keys_marked_for_deletion, sliced) is proved to leave the running watermark at the max of itself and every collected version - so the watermark of an owner or a copy is never below a version it has collected."
for _p in [k for k, v in PROPS.items() if A_SVV in v["assumptions"]]:
    for _e in PROPS[_p]["verus"]:
        if _e["unit"] in (U1, U2, U5) and "NodeState::set_versioned_value" not in _e["fns"] and any(f.startswith("NodeState::") or f.startswith("ClusterState::apply_delta") for f in _e["fns"]):
            _e["fns"] = list(_e["fns"]) + ["NodeState::set_versioned_value"]
            break
    else:
        PROPS[_p]["verus"].append({"unit": U1, "fns": ["NodeState::set_versioned_value"]})
A_C13 = "A-iter / A-watch / A-pred (C13): the two `flat_map(..).collect()` chains of update_nodes_liveness are contracted stubs (the map of the closure's Some results over `once(self id).chain(detector live set)` resp. over the keys; the closure bodies themselves are proved as slices); tokio's watch::Sender is opaque with ghost views (value held, number of publications) and `send` always stores because Chitchat keeps a receiver; `HashMap != HashMap` compares contents; the user predicate (Box<dyn Fn>) is a function of the node state it is shown; the representation invariant watch_inv (watch value <-> previous_live_nodes) is assumed of the pre-state: the constructor establishes it (both empty) and only update_nodes_liveness writes the two private fields; all of it is exercised on the real function by the bounded driver c13_watch"
PROPS["C13"] = {
    "level": "proof",
    "verus": [{"unit": U5, "fns": ["Chitchat::update_nodes_liveness__watch", "Chitchat::live_entry", "Chitchat::published_entry", "Chitchat::node_state", "lemma_current_unique",
                                   "Chitchat::update_nodes_liveness", "Chitchat::self_chitchat_id", "ClusterState::remove_node"]}],
    "native": [{"test": "verif_c13_watch", "pairs": ["Chitchat::update_nodes_liveness"]}],
    "kani": [],
    "assumptions": [A_STD, A_KEY, A_U5, A_C13, A_TERM, A_TEST_CFG],
    "level_text": "One evaluation step is decided by proof on the real text of Chitchat::update_nodes_liveness, for every state satisfying the representation invariant: afterwards the watch value lists exactly the live members (local node included) that have a state satisfying the extra predicate, each snapshot carrying the member's current max version; a new value is published iff the (live member -> max version, predicate outcome) map differs from the one of the previous evaluation, in particular whenever the live set or a live member's max version changed; the node GC at the end of the step removes only non-live members. The two closure bodies are proved as slices (first: (max version, predicate outcome) iff the member has a state; second: a clone of the state iff it satisfies the predicate).",
    "level_note": "The two collect() chains, HashMap inequality and the watch sender are contracted stubs (A-iter / A-watch), so 'the map really is what the chain builds' and 'the receiver really sees what was sent' are checked only by the bounded driver c13_watch on the real function (every sequence of <= 5/6 operations over heartbeats, selective silence, revivals, a third member, key writes / TTL / tombstones, a reset to a lower max version, local writes, key GC, evaluations; with and without a predicate), labelled bounded. Lifting 'every step' to 'every history' uses that previous_live_nodes and the sender are private to this function. The TTL + key-GC history that broke the first sentence on the original code (F-6, fixed by 03fc0b1) is part of the driver's scope.",
    "technique": "Verus contracts on the extracted update_nodes_liveness (closure bodies as slices, collect chains as contracted stubs, ghost views of the watch sender) + bounded native comparison on the real function",
    "explanation": "",
    "design_ref": "DESIGN.md §11b",
}
A_BTREE_ORDER = "A-std (map order): iterating `&BTreeMap` yields every entry once in an order that is a function of the map's contents (btree_order, uninterpreted; ascending keys in reality) - so Digest::serialize and Digest::serialized_len walk the same sequence; `n as u16` and `buf.extend(x.to_le_bytes())` go through adapters whose body is the idiom"
A_DELTA_BYTES = "A-zstd (delta bytes): the bytes Delta::serialize appends are uninterpreted and their number is the delta's stored serialized_len - enforced at run time by the assert_eq!(payload.len(), self.serialized_len) in its body (the assert's own reachability is the compressibility question of C07, bounded drivers c08_messages / c07_reply_size)"
PROPS["C08"]["verus"].append({"unit": U2, "fns": ["Digest::serialize", "Digest::serialized_len", "lemma_enc_entries_step", "lemma_enc_entries_mono"]})
PROPS["C08"]["verus"].append({"unit": U5, "fns": ["ChitchatMessage::serialize", "ChitchatMessage::serialized_len", "ProtocolVersion::to_code", "MessageType::to_code", "Delta::serialized_len", "lemma_msg_len"]})
PROPS["C08"]["assumptions"] += [A_BTREE_ORDER, A_DELTA_BYTES]
PROPS["C08"]["level_text"] += " The composites are under the same kind of contract: Digest (count as u16, then per member in map order id, heartbeat, GC watermark, max version - two loops over the map proved to walk the same sequence) and ChitchatMessage (magic 45139 LE, version 0, type byte 0/1/2/3, then digest + str(cluster id) | digest + delta | delta | nothing) append exactly their documented layout and announce exactly its length; the fixed part of every message is 4 bytes (lemma_msg_len)."
PROPS["C07"]["verus"].append({"unit": U2, "fns": ["Digest::serialize", "Digest::serialized_len"]})
PROPS["C07"]["verus"].append({"unit": U5, "fns": ["ChitchatMessage::serialize", "ChitchatMessage::serialized_len", "lemma_msg_len"]})
PROPS["C07"]["assumptions"] += [A_BTREE_ORDER, A_DELTA_BYTES]
PROPS["C07"]["level_text"] += " The digest length the budget subtracts is now the proved length of what Digest::serialize writes (no longer an uninterpreted number), and a reply is exactly 4 + digest + delta.serialized_len bytes long (ChitchatMessage::serialize / serialized_len against the documented layout), so the constant MESSAGE_HEADER_LEN is tied to the real header."
for _p in ("C10", "C11", "C12"):
    PROPS[_p]["verus"].append({"unit": U4, "fns": ["FailureDetector::get_or_create_sampling_window"]})
for _p in ("C05", "C11", "C12", "C18"):
    PROPS[_p]["verus"].append({"unit": U5, "fns": ["ClusterState::node_state_mut_or_init"]})
A_ITER_DIGEST = "A-iter (digest): `node_states.iter().filter(F).map(G).collect()` in ClusterState::compute_digest is a contracted stub (G's results for the entries F keeps); F and G themselves are proved as slices of the closure bodies; the scheduled-for-deletion set is opaque (membership only; its filter predicate scheduled_pred is proved in U4, the chain that builds it is not); checked on the real functions by the bounded drivers c12_timeline / c07_window"
for _p in ("C12", "C07"):
    PROPS[_p]["verus"].append({"unit": U2, "fns": ["ClusterState::compute_digest", "digest_filter_pred", "digest_map_fn"]})
    PROPS[_p]["assumptions"].append(A_ITER_DIGEST)
PROPS["C12"]["verus"].append({"unit": U5, "fns": ["Chitchat::create_syn_message", "Chitchat::compute_digest__real"]})
PROPS["C12"]["level_text"] += " What a digest mentions is proved on ClusterState::compute_digest (filter and map closure bodies as slices, the adapter chain as a contracted stub) and carried to Chitchat::create_syn_message: a SYN's digest mentions exactly the known members that are not scheduled for deletion, each with the digest of its state."
PROPS["C16"]["verus"].append({"unit": U5, "fns": ["Chitchat::create_syn_message", "Chitchat::with_chitchat_id_and_seeds"]})
PROPS["C16"]["level_text"] += " Chitchat::create_syn_message is proved to put the node's own configured cluster id into every SYN."
for _p in ("C13", "C05"):
    PROPS[_p]["verus"].append({"unit": U5, "fns": ["Chitchat::with_chitchat_id_and_seeds", "ClusterState::with_seed_addrs", "Chitchat::self_node_state"]})
PROPS["C13"]["level_text"] += " The base case is proved too: Chitchat::with_chitchat_id_and_seeds returns a node satisfying the representation invariant (watch value and previous_live_nodes both empty), with live and dead sets empty and only the local node known."
PROPS["C13"]["assumptions"] = [a.replace("is assumed of the pre-state: the constructor establishes it (both empty) and only update_nodes_liveness writes the two private fields", "is established by the constructor (proved) and re-established by every evaluation (proved, @aux); that nothing else writes the two private fields is read off the source") for a in PROPS["C13"]["assumptions"]]
PROPS["C18"]["verus"].append({"unit": U5, "fns": ["lemma_sk_step", "lemma_catchup"]})
PROPS["C18"]["level_text"] += " The replacement clause is proved as well (the supplied iterator is any well-behaved finite iterator, its prophetic content `key_values.remaining()` is the supplied state): whenever the copy is changed, its key set afterwards is exactly the set of supplied keys, for a key supplied (possibly several times) or present before the entry kept is never older than a supplied one, and every entry is the old one or a supplied one verbatim (catchup_keys; two loop invariants over the generic iterator and the set of keys to remove, lemma_catchup)."
PROPS["C18"]["level_note"] = "All callees are now under contract (set_versioned_value and node_state_mut_or_init through the Entry idiom R15, get_or_create_sampling_window as a stub restating U4). Assumed: `key_values_including_deleted().map(..).collect()` yields the copy's key set (ext_key_set), iterating a HashSet visits each element (ext_set_to_vec), the supplied iterator obeys the iterator laws (premise). The bounded driver c18_catchup still runs the real function over the property's list of copies x supplied states."
PROPS["C17"]["native"] = list(PROPS["C17"].get("native", [])) + [{"test": "verif_c17_select", "pairs": ["select_nodes_for_gossip"]}]
PROPS["C17"]["level_note"] += " A bounded native driver (c17_select: the real function with a seeded StdRng over every pool configuration of a 7-address universe) runs next to the proof, so that a change the extracted-text unit cannot compile (exit 2 there) still meets a check."
PROPS["C02"]["verus"].append({"unit": U5, "fns": ["Chitchat::reset_node_state_if_update", "lemma_catchup", "lemma_sk_step"]})
PROPS["C02"]["native"].append({"test": "verif_c18_catchup", "pairs": ["Chitchat::reset_node_state_if_update"]})
PROPS["C02"]["level_text"] += " The catch-up entry point is part of the local lemmas: a fetched state older than the copy's GC watermark (or not newer than the copy) leaves the copy untouched - it cannot bring back entries the copy has already seen collected."
PROPS["C02"]["assumptions"] += [A_U5, A_LRU]
U7 = "u7_listener"
PROPS["C15"]["verus"] = list(PROPS["C15"].get("verus", [])) + [{"unit": U7, "fns": ["InnerListeners::subscribe_event", "InnerListeners::remove_listener"]}]
PROPS["C15"]["assumptions"] = list(PROPS["C15"]["assumptions"]) + [A_STD, A_KEY, "U7: the callbacks (Box<dyn Fn>) and the id counter (AtomicUsize) are opaque types; the id a subscription gets (fetch_add on the counter, under Arc / RwLock) and the dispatch itself (range scan in string order) are outside Verus - bounded driver c15_dispatch"]
PROPS["C15"]["level_text"] += " The registry bookkeeping is proved on the real text of InnerListeners::subscribe_event / remove_listener: subscribing makes exactly the subscription (prefix, id) active, cancelling makes exactly it inactive, every other subscription is untouched."
PROPS["C12"]["verus"].append({"unit": U4, "fns": ["FailureDetector::new"]})
PROPS["C13"]["verus"].append({"unit": U4, "fns": ["FailureDetector::new"]})
PROPS["C15"]["verus"].append({"unit": U1, "fns": ["NodeState::set_versioned_value"]})
PROPS["C15"]["level_text"] += " WHEN listeners are triggered is proved at the call site inside the verified NodeState::set_versioned_value (ghost-guarded call): only for an update that was accepted (no entry, or a strictly older one) and is not a tombstone."
PROPS["C15"]["level_note"] = "Deductive obligations exist for the bookkeeping and the trigger condition only; the dispatch itself (which registered prefixes match a key, each exactly once) stays bounded - string-order reasoning over BTreeMap::range is outside both verifiers. Claimed at exploration level with the property's own exhaustive scope; the finding F-2 it exposed is repaired (known_findings.json)."
PROPS["C07"]["level_text"] += " The size bound is proved for every budget (100..65,535), not only up to 16 KiB, as long as no single op of the offered members (a member header or one key-value) exceeds one 16 KiB block of the compressed stream (small_ops)."
PROPS["C07"]["level_note"] = "Only for an op larger than the 16 KiB block (a key-value of more than about 16 KiB) is the size bound not proved: the code's own upper bound is short by 3 bytes per extra block if every block were incompressible; measured: 16 KiB blocks of valid UTF-8 (at most 7 bits of entropy per byte) always compress by more than that, so no overshoot is reachable - an unchecked compressibility assumption, exercised by c07_window / c07_reply_size. The content clause rests on the assumed contract of stale_key_values (A-stale) and of the first loop (which members are offered with which start version: sender_decision is proved, the map iteration and the scheduled-for-deletion filter are not); both are checked on the real function by the bounded driver c07_window; the end-to-end reply length incl. the 4-byte header and own digest by c07_reply_size."
for _p in ("C07", "C12", "C14", "C03", "C05"):
    PROPS[_p]["verus"].append({"unit": U2, "fns": ["ClusterState::compute_partial_delta_respecting_mtu__whole", "lemma_member_e2e"]})
PROPS["C07"]["level_text"] += " Besides the two slices, the WHOLE compute_partial_delta_respecting_mtu is verified without slicing (both loops composed through SortedStaleNodes::into_iter) against an end-to-end contract: every member delta of the result is about a known member that is not scheduled for deletion and is ahead of the peer's digest, starts at the version of the sender-side decision, and carries exactly its entries above that version - all of them, or (last member only) a gap-free prefix in ascending version order."
PROPS["C12"]["level_text"] += " The same end-to-end contract of the whole compute_partial_delta_respecting_mtu says that no member delta is ever about a member of the scheduled-for-deletion set."
U2_CODEC = ["ChitchatId::serialize", "ChitchatId::serialized_len", "Heartbeat::serialize", "Heartbeat::serialized_len", "NodeDigest::serialize",
            "NodeDigest::serialized_len", "alloc::string::String::serialize", "alloc::string::String::serialized_len",
            "DeletionStatusMutation::serialize", "DeletionStatusMutation::serialized_len", "KeyValueMutationRef::serialize",
            "KeyValueMutationRef::serialized_len", "DeltaOpRef::serialize", "DeltaOpRef::serialized_len", "DeltaOp::as_ref", "DeltaOp::serialize",
            "DeltaOp::serialized_len", "kv_ref_from_checked"]
PROPS["C08"]["verus"].append({"unit": U2, "fns": U2_CODEC})
PROPS["C07"]["verus"].append({"unit": U2, "fns": ["DeltaOp::serialize", "DeltaOp::serialized_len", "DeltaOpRef::serialized_len", "DeltaOp::as_ref"]})
PROPS["C08"]["level_text"] += " Proved by Verus on the real text against the documented layout written as spec functions (id = str(node_id) generation(u64) address; op = tag byte then id gc(u64) from(u64) | str(key) str(value) version(u64) status(u8) | max(u64)): ChitchatId, Heartbeat, NodeDigest, String, DeletionStatusMutation, KeyValueMutationRef, DeltaOpRef and DeltaOp append exactly that layout and announce exactly its length (so the length every op announces to the MTU-bounded serializer is the number of bytes it writes)."
PROPS["C08"]["assumptions"].append("primitive layouts enc_u64 / enc_str / enc_addr are uninterpreted in U2 (u64 and SocketAddr are Kani-proved on the real crate, str is bounded-checked by c08_op_lengths); KeyValueMutationRef::from's result is axiomatised by the field facts proved on its body under another name (kv_ref_from_checked)")

NOT_APPLICABLE = {
    "C01": "liveness over unbounded multi-node histories under fairness; no contract on one call expresses 'within a bounded number of handshakes' (its per-handshake progress sentence is decided under C14: lemma_agree + lemma_admitted_strictly_advances)",
    "C19": "async select loop, channels, lock ordering and shutdown liveness: concurrency and whole-history behaviour that neither Verus nor Kani models",
}
# C11's "live => >= 2 reports" also rests on a fresh window being empty and on a cleared / reset window
# really forgetting its intervals: the same U4 obligations C10 carries are reported under C11 as well.
PROPS["C11"]["verus"].append({"unit": U4, "fns": ["SamplingWindow::new", "SamplingWindow::reset", "BoundedArrayStats::append", "BoundedArrayStats::len", "BoundedArrayStats::clear"]})
PROPS["C11"]["level_text"] += " The supporting window operations are carried as C11 obligations too: a fresh window (SamplingWindow::new) holds no interval and no last heartbeat, reset / clear bring the interval count back to 0, and append adds at most one interval - so stale intervals cannot stand in for fresh reports after a member was declared dead."
# C13's step proof uses the U5 detector stubs; the U4 obligations those stubs restate (bridge table,
# DESIGN §11) are reported under C13 as well, so that breaking one of them is a C13 alarm too.
PROPS["C13"]["verus"].append({"unit": U4, "fns": ["FailureDetector::update_node_liveness", "FailureDetector::garbage_collect"]})
PROPS["C13"]["level_text"] += " The detector clauses the step proof relies on are carried as C13 obligations on the real detector (U4): update_node_liveness(id) leaves id in exactly one of live / dead and nobody else's membership changes; garbage_collect leaves the live set untouched and only removes members that were dead."
# C14's "applied after wiping the receiver's copy" is NodeState::reset_node's own postcondition (apply_delta sees
# only its contract): reported under C14 as well, with the receiver-side entry point ClusterState::apply_delta.
PROPS["C14"]["verus"].append({"unit": U1, "fns": ["NodeState::reset_node", "ClusterState::apply_delta"]})
PROPS["C14"]["level_text"] += " The wipe itself is carried as a C14 obligation too: NodeState::reset_node leaves no entry, max version 0 and exactly the announced GC watermark (NodeState::apply_delta is checked against that contract, not its body), and ClusterState::apply_delta routes every member delta through NodeState::apply_delta."
# C03's anchor "per-member grouping of ops on decode (no op without preceding member header, no duplicate
# member)" is delta.rs:372-421: DeltaBuilder::{apply_op, flush} were carried already, the decoder loop of
# Delta::deserialize (result well-formed or an error, for every byte string) was carried by C04 only.
# DeltaBuilder::finish is deliberately NOT a C03 obligation: its exact-content clause would also fail for a
# change that merely drops a member delta, which loses progress but invents nothing (not a C03 break).
PROPS["C03"]["verus"].append({"unit": U2, "fns": ["delta_deserialize"]})
PROPS["C03"]["level_text"] += " The decode-side grouping is carried by the decoder loop of Delta::deserialize as well: whatever bytes arrive, the result is a well-formed delta (no op without a preceding member header, no duplicate member) or an error."
