"""Registry: which obligations carry which property (DESIGN.md §7).

grades: P = proved by Verus on the extracted real text; K = complete Kani proof on the real crate;
B = bounded stand-in on the real function (never counted as proved); A = assumed contract.
"""

A_STD = "A-std: vstd's specifications of BTreeMap/HashMap/HashSet/Vec/Option/String and the added std specs listed in units/*.vrs (assume_specification / external_body items)"
A_KEY = "A-key: String and ChitchatId obey the ordering / hashing key model required by vstd's map specs (keys_ok, obeys_key_model)"
A_DERIVE = "A-derive: derived PartialEq/PartialOrd on Heartbeat compare the single field (cross-checked by a Kani harness on the real type)"
A_SVV = "A-svv: contract of NodeState::set_versioned_value is assumed in Verus (BTreeMap Entry API unspecified in vstd); the same contract is checked on the real function by the bounded native driver svv_contract"
A_TERM = "A-term: termination of loops desugared by R6 is not proved (exec_allows_no_decreases_clause)"
A_INT = "machine integers: NodeState::max_version < u64::MAX is a stated precondition of the local write operations"
A_CLOCK = "A-clock: tokio Instant is opaque; only Instant::now() and copies are used in verified code"
A_TEST_CFG = "native drivers compile the crate with cfg(test) (deterministic RNG in SortedStaleNodes::into_iter, tokio paused clock)"

U1_CORE = ["NodeState::check_delta_status", "NodeState::reset_node", "NodeState::apply_delta", "NodeState::new"]
U1_LEMMAS_C14 = ["lemma_agree", "lemma_sender_offers_iff_ahead", "lemma_admitted_strictly_advances"]

PROPS = {
    "C04": {
        "level": "proof",
        "title": "Versions and replication frontiers only move forward",
        "verus": [{"unit": "u1_state", "fns": U1_CORE + ["NodeState::monotonic_property", "NodeState::max_version",
                                                         "NodeState::last_gc_version", "lemma_admitted_strictly_advances"]}],
        "native": [],
        "kani": [],
        "assumptions": [A_STD, A_KEY, A_SVV, A_TERM, A_INT, A_CLOCK],
        "trusted_base": ["verus 0.2026.09.13 + z3", "vx/extract.py rewrite rules R1-R14 (vx/RULES.md)", "rustc"],
        "explanation": "",
        "design_ref": "DESIGN.md §7 C04",
    },
    "C14": {
        "level": "proof",
        "title": "Sender and receiver agree on reset versus incremental update",
        "verus": [{"unit": "u1_state", "fns": ["NodeState::check_delta_status", "NodeState::apply_delta"] + U1_LEMMAS_C14}],
        "native": [],
        "kani": [],
        "assumptions": [A_STD, A_KEY, A_SVV, A_TERM],
        "trusted_base": ["verus 0.2026.09.13 + z3", "vx/extract.py rewrite rules R1-R14 (vx/RULES.md)", "rustc"],
        "explanation": "",
        "design_ref": "DESIGN.md §7 C14",
    },
}

NOT_APPLICABLE = {
    "C01": "liveness over unbounded multi-node histories under fairness; no contract on one call expresses 'within a bounded number of handshakes' (its per-handshake progress sentence is decided under C14)",
    "C13": "the whole body of update_nodes_liveness is iterator/closure chains over HashMap/BTreeMap feeding a tokio watch channel: Verus cannot take it and Kani cannot build the collections, so no deductive obligation can be generated; a bounded run alone would be testing, a different family",
    "C19": "async select loop, channels, lock ordering and shutdown liveness: concurrency and whole-history behaviour that neither Verus nor Kani models",
}
